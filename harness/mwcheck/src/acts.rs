//! Action constructors and scripted seed builders (every seed is produced by running real
//! transactions through the real contract inside the simulator).

use cosmwasm_std::Uint128;
use mwsim::sim::*;
use mwsim::world::*;
use staking::msg::ExecuteMsg;

pub fn sd() -> String {
    staked_denom()
}

pub fn exec(sender: &str, msg: ExecuteMsg, funds: Vec<(String, u128)>) -> Act {
    Act::Exec { sender: sender.to_string(), msg, funds, hold: false }
}
pub fn hold(a: Act) -> Act {
    match a {
        Act::Exec { sender, msg, funds, .. } => Act::Exec { sender, msg, funds, hold: true },
        Act::Hook { from, amount, msg, mint, .. } => Act::Hook { from, amount, msg, mint, hold: true },
        o => o,
    }
}
pub fn stake(who: &str, amt: u128) -> Act {
    exec(who, ExecuteMsg::LiquidStake { mint_to: None, transfer_to_native_chain: None, expected_mint_amount: None }, vec![(sd(), amt)])
}
pub fn stake_to(who: &str, amt: u128, mint_to: Option<String>, flag: Option<bool>, expect: Option<u128>) -> Act {
    exec(
        who,
        ExecuteMsg::LiquidStake { mint_to, transfer_to_native_chain: flag, expected_mint_amount: expect.map(Uint128::new) },
        vec![(sd(), amt)],
    )
}
pub fn unstake(s: &Sim, who: &str, amt: u128) -> Act {
    exec(who, ExecuteMsg::LiquidUnstake {}, vec![(s.w.lst_denom(), amt)])
}
pub fn submit(by: &str) -> Act {
    exec(by, ExecuteMsg::SubmitBatch {}, vec![])
}
pub fn withdraw(who: &str, batch: u64) -> Act {
    exec(who, ExecuteMsg::Withdraw { batch_id: batch }, vec![])
}
pub fn rewards(s: &Sim, amt: u128) -> Act {
    Act::Hook { from: n20(&s.w.k, "collector"), amount: amt, msg: ExecuteMsg::ReceiveRewards {}, mint: amt, hold: false }
}
pub fn rewards_from(from: &str, amt: u128) -> Act {
    Act::Hook { from: from.to_string(), amount: amt, msg: ExecuteMsg::ReceiveRewards {}, mint: amt, hold: false }
}
/// the staker returns `amt` for batch `b`; what the staker lacks is topped up from outside
pub fn deliver(s: &Sim, b: u64, amt: u128) -> Act {
    let staker = n20(&s.w.k, "staker");
    let have = s.w.nbal(&staker, &sd());
    Act::Hook { from: staker, amount: amt, msg: ExecuteMsg::ReceiveUnstakedTokens { batch_id: b }, mint: amt.saturating_sub(have), hold: false }
}
pub fn deliver_from(from: &str, b: u64, amt: u128) -> Act {
    Act::Hook { from: from.to_string(), amount: amt, msg: ExecuteMsg::ReceiveUnstakedTokens { batch_id: b }, mint: amt, hold: false }
}
pub fn advance(to: u64) -> Act {
    Act::Advance { to }
}
pub fn resume(by: &str, n: u128, l: u128, r: u128) -> Act {
    exec(
        by,
        ExecuteMsg::ResumeContract {
            total_native_token: Uint128::new(n),
            total_liquid_stake_token: Uint128::new(l),
            total_reward_amount: Uint128::new(r),
        },
        vec![],
    )
}
pub fn halt(by: &str) -> Act {
    exec(by, ExecuteMsg::CircuitBreaker {}, vec![])
}
pub fn recover(by: &str, paginated: Option<bool>, selected: Option<Vec<u64>>, receiver: Option<String>) -> Act {
    exec(by, ExecuteMsg::RecoverPendingIbcTransfers { paginated, selected_packets: selected, receiver }, vec![])
}
pub fn fee_withdraw(by: &str, amt: u128) -> Act {
    exec(by, ExecuteMsg::FeeWithdraw { amount: Uint128::new(amt) }, vec![])
}

pub fn adm() -> String {
    p20("adm")
}
pub fn u(i: u8) -> String {
    p20(&format!("u{i}"))
}

/// monitors applied to every scripted step (a scenario reports those of its own properties)
pub const SCRIPT_PROPS: [&str; 9] = ["C01", "C02", "C03", "C04", "C05", "C06", "C07", "C11", "C15"];

/// scripted prefix; panics (machinery error) if a scripted step fails
pub struct Script {
    pub s: Sim,
    pub strict: bool,
    /// a scripted step failed: the rest of the script is skipped, the prefix built so far is the seed
    pub dead: bool,
}

impl Script {
    pub fn new(k: &K) -> Script {
        let mut s = Sim::new(k).expect("instantiate");
        for i in 1..=3 {
            s.fund(&u(i), 100_000);
        }
        s.fund(&p20("x"), 100_000);
        s.fund(&p32("c1"), 100_000);
        Script { s, strict: true, dead: false }
    }
    pub fn run(mut self, a: Act) -> Script {
        if self.dead {
            return self;
        }
        let pre = self.s.clone();
        let ap = self.s.apply(&a);
        if self.strict && !ap.out.ok {
            // the step is still judged below (a monitor may say that it had to succeed); the remaining
            // script is skipped and the prefix reached so far serves as the seed
            eprintln!("note: scripted seed step failed on this tree ({}: {:?} {:?}); the seed is truncated here", act_label(&a), ap.out.err, ap.out.panicked.as_ref().map(|p| p.lines().next().unwrap_or("").to_string()));
            self.dead = true;
        }
        // the scripted prefix is judged by the same monitors as explored transitions
        let mut vs = mwsim::monitors::step_monitors(&SCRIPT_PROPS, &pre, &a, &ap, &self.s);
        vs.extend(mwsim::monitors::state_monitors(&SCRIPT_PROPS, &self.s));
        for (seq, o) in &ap.acks {
            if !o.ok {
                vs.push(mwsim::explore::viol("C07", "outcome.callback_failed", format!("sudo for the success acknowledgement of packet {seq} failed: {:?}", o.err)));
                if o.undecodable {
                    for p in ["C01", "C02", "C03"] {
                        vs.push(mwsim::explore::viol(p, "wire.callback_undecodable", format!("success acknowledgement of packet {seq}: {}", o.err.clone().unwrap_or_default())));
                    }
                }
            }
        }
        for v in vs {
            if self.s.g.seed_viol.len() < 12 && !self.s.g.seed_viol.iter().any(|x| x.1 == format!("seed.{}", v.key) && x.0 == v.property) {
                self.s.g.seed_viol.push((v.property, format!("seed.{}", v.key), format!("while building the seed, at {}: {}", act_label(&a), v.detail)));
            }
        }
        self
    }
    /// a scripted step of a bulk phase: executed, not judged (the steps that matter after a bulk phase are)
    pub fn quiet(mut self, a: Act) -> Script {
        if self.dead {
            return self;
        }
        let ap = self.s.apply(&a);
        if self.strict && !ap.out.ok {
            eprintln!("note: scripted (bulk) seed step failed on this tree ({}: {:?}); the seed is truncated here", act_label(&a), ap.out.err);
            self.dead = true;
        }
        self
    }
    pub fn with(mut self, f: impl FnOnce(&Sim) -> Act) -> Script {
        if self.dead {
            return self;
        }
        let a = f(&self.s);
        self = self.run(a);
        self
    }
    pub fn resumed(k: &K) -> Script {
        Script::new(k).run(resume(&adm(), 0, 0, 0))
    }
    pub fn done(self) -> Sim {
        self.s
    }
}

/// build a seed; a scripted step that fails (for instance because the tree under test is broken)
/// makes the seed unavailable instead of aborting the run
pub fn try_seed(f: impl FnOnce() -> Sim) -> Option<Sim> {
    let r = mwsim::world::guarded(f);
    if r.is_err() {
        eprintln!("note: a scripted seed is unavailable on this tree: {}", mwsim::world::last_panic_message().replace('\n', " ").chars().take(300).collect::<String>());
    }
    r.ok().map(|mut s| {
        // the menus bound further activity relative to what the scripted prefix already used
        s.g.seed_batches = (s.m.batches.len() as u64).saturating_sub(2);
        s.g.seed_seq = s.w.ibc.next_seq.saturating_sub(6);
        s
    })
}

/// due time of the pending batch according to the reference model
pub fn pending_due(s: &Sim) -> u64 {
    s.m.batches[&s.m.pending].due
}

pub fn lst_bal(s: &Sim, who: &str) -> u128 {
    s.w.bal(who, &s.w.lst_denom())
}

// ---- commonly used seeds -------------------------------------------------------------------

pub fn seed_fresh(k: &K) -> Sim {
    Script::new(k).done()
}
pub fn seed_resumed(k: &K) -> Sim {
    Script::resumed(k).done()
}
/// two users staked at rate 1
pub fn seed_two_stakes(k: &K) -> Sim {
    Script::resumed(k).run(stake(&u(1), 100)).run(stake(&u(2), 60)).done()
}
/// rate > 1 (a reward arrived)
pub fn seed_rate_up(k: &K) -> Sim {
    Script::resumed(k).run(stake(&u(1), 100)).run(stake(&u(2), 60)).with(|s| rewards(s, 50)).done()
}
/// rate < 1 (admin resumed with slashed totals)
pub fn seed_rate_down(k: &K) -> Sim {
    Script::resumed(k)
        .run(stake(&u(1), 100))
        .run(stake(&u(2), 60))
        .run(halt(&adm()))
        .run(resume(&adm(), 120, 160, 0))
        .done()
}
/// requests queued by two users, batch due
pub fn seed_queued(k: &K) -> Sim {
    let sc = Script::resumed(k).run(stake(&u(1), 100)).run(stake(&u(2), 60)).with(|s| rewards(s, 50));
    let sc = sc.with(|s| unstake(s, &u(1), 30)).with(|s| unstake(s, &u(2), 20));
    sc.with(|s| advance(pending_due(s))).done()
}
/// a submitted batch whose unbonding period has elapsed
pub fn seed_submitted(k: &K) -> Sim {
    let mut s = seed_queued(k);
    let ap = s.apply(&submit(&p20("x")));
    assert!(ap.out.ok, "{:?}", ap.out.err);
    let due = s.m.batches[&1].due;
    s.apply(&advance(due));
    s
}
/// a received batch with two open requests
pub fn seed_received(k: &K) -> Sim {
    let mut s = seed_submitted(k);
    let exp = s.m.batches[&1].expected.unwrap();
    let a = deliver(&s, 1, exp);
    let ap = s.apply(&a);
    assert!(ap.out.ok, "{:?}", ap.out.err);
    s
}
/// everything withdrawn again: totals back to zero
pub fn seed_full_exit(k: &K) -> Sim {
    let sc = Script::resumed(k).run(stake(&u(1), 100));
    let sc = sc.with(|s| unstake(s, &u(1), 100)).with(|s| advance(pending_due(s))).run(submit(&u(1)));
    let sc = sc.with(|s| advance(s.m.batches[&1].due)).with(|s| deliver(s, 1, s.m.batches[&1].expected.unwrap()));
    sc.run(withdraw(&u(1), 1)).done()
}
/// admin resumed with staked > 0 and no LST: the next stake sweeps the ownerless stake to fees
pub fn seed_sweep(k: &K) -> Sim {
    Script::new(k).run(resume(&adm(), 500, 0, 0)).done()
}

// ---- long scripted seeds: deep histories are cheap to script and put the search far from the initial state ----

/// `n` complete batch cycles (ids cross 9 -> 10), alternating exact / short / long deliveries, with
/// some requests withdrawn and some left open; batch n+1 is pending with one request.
/// `deliver`: the operator returns the tokens of each batch (otherwise all n batches stay Submitted);
/// `u2_withdraws`: whether u2 ever withdraws (if not, u2 keeps one open request per batch)
pub fn seed_n_batches(k: &K, n: u64, deliver_each: bool, u2_withdraws: bool) -> Sim {
    let mut sc = Script::resumed(k);
    sc = sc.run(stake(&u(1), 5_000)).run(stake(&u(2), 3_000)).run(stake(&u(3), 1_000));
    if n > 40 {
        // long histories need more LST than the three standard stakes provide
        sc = sc.run(stake(&u(1), 130 * n as u128 + (n as u128 * n as u128) / 2)).run(stake(&u(2), 60 * n as u128)).run(stake(&u(3), 10 * n as u128));
    }
    for i in 1..=n {
        sc = sc.with(|s| unstake(s, &u(1), 100 + i as u128)).with(|s| unstake(s, &u(2), 50));
        if i % 3 == 0 {
            sc = sc.with(|s| unstake(s, &u(3), 7)).with(|s| unstake(s, &u(1), 1));
        }
        sc = sc.with(|s| advance((pending_due(s) + (i % 2)).max(s.w.time + 1))).run(submit(&p20("x")));
        if !deliver_each {
            continue;
        }
        sc = sc.with(|s| advance(s.m.batches[&i].due.max(s.w.time + 1)));
        sc = sc.with(|s| {
            let e = s.m.batches[&i].expected.unwrap();
            let amt = match i % 3 {
                0 => e.saturating_sub(3).max(1),
                1 => e,
                _ => e + 2,
            };
            deliver(s, i, amt)
        });
        if i % 2 == 1 {
            sc = sc.run(withdraw(&u(1), i));
        }
        if u2_withdraws && i % 4 == 0 {
            sc = sc.run(withdraw(&u(2), i));
        }
        if i == 5 {
            sc = sc.with(|s| rewards(s, 333));
        }
    }
    sc = sc.with(|s| unstake(s, &u(2), 20));
    sc.with(|s| advance(pending_due(s).max(s.w.time + 1))).done()
}

pub fn seed_ten_batches(k: &K) -> Sim {
    seed_n_batches(k, 10, true, false)
}

/// [staked, staked, LST] (or [LST, staked]) refundable transfers that all name the staker as receiver
pub fn seed_mixed_refundable(k: &K, base: Sim, lst_lowest: bool) -> Sim {
    let mut s = base;
    let staker = n20(k, "staker");
    if lst_lowest {
        let ap = s.apply(&hold(stake_to(&u(1), 20, Some(staker.clone()), Some(true), None)));
        assert!(ap.out.ok, "{:?}", ap.out.err);
        s.apply(&Act::Outcome { seq: ap.out.new_packets[0], kind: 0 });
        s.apply(&Act::Outcome { seq: ap.out.new_packets[1], kind: 2 });
        let ap = s.apply(&hold(stake(&u(1), 21)));
        assert!(ap.out.ok);
        s.apply(&Act::Outcome { seq: ap.out.new_packets[0], kind: 1 });
    } else {
        let ap = s.apply(&hold(stake(&u(1), 21)));
        assert!(ap.out.ok, "{:?}", ap.out.err);
        s.apply(&Act::Outcome { seq: ap.out.new_packets[0], kind: 1 });
        let ap = s.apply(&hold(stake_to(&u(1), 20, Some(staker), Some(true), None)));
        assert!(ap.out.ok);
        s.apply(&Act::Outcome { seq: ap.out.new_packets[0], kind: 2 });
        s.apply(&Act::Outcome { seq: ap.out.new_packets[1], kind: 2 });
    }
    s
}

/// two refundable LST deliveries to one native user (one timed out, one refused), their stake transfers
/// acknowledged; whatever LST the base state holds for queued requests stays in the contract
pub fn seed_two_lst_refundable(k: &K, base: Sim, to: &str) -> Sim {
    let mut s = base;
    for (amt, kind) in [(30u128, 2u8), (23, 1)] {
        let ap = s.apply(&hold(stake_to(&u(1), amt, Some(to.to_string()), Some(true), None)));
        assert!(ap.out.ok, "{:?}", ap.out.err);
        assert!(ap.out.new_packets.len() == 2, "stake with IBC delivery sends two packets");
        s.apply(&Act::Outcome { seq: ap.out.new_packets[0], kind: 0 });
        s.apply(&Act::Outcome { seq: ap.out.new_packets[1], kind });
    }
    s
}

/// many small rewards whose fee remainders accumulate (and two fee-configuration changes on the way)
pub fn seed_many_rewards(k: &K) -> Sim {
    let mut sc = Script::resumed(k).run(stake(&u(1), 1_000)).run(stake(&u(2), 777));
    for r in [7u128, 13, 99, 101, 15, 15, 9, 10_001, 3, 19, 19, 57] {
        sc = sc.with(move |s| rewards(s, r));
    }
    sc.done()
}

/// amounts in the middle of the 128-bit range (2^64 .. 2^100), rate away from 1, two open requests
pub fn seed_mid_amounts(k: &K) -> Sim {
    let mut sc = Script::resumed(k);
    let big: u128 = 1 << 100;
    for i in 1..=3 {
        sc.s.fund(&u(i), big);
    }
    let a1: u128 = (1 << 70) + 7;
    let a2: u128 = (1 << 80) + 11;
    let a3: u128 = (1 << 64) + 3;
    sc = sc.run(stake(&u(1), a1)).run(stake(&u(2), a2)).run(stake(&u(3), a3));
    sc = sc.with(|s| rewards(s, (1 << 66) + 5));
    sc = sc.with(|s| unstake(s, &u(1), (1 << 69) + 1)).with(|s| unstake(s, &u(2), (1 << 79) + 13));
    sc.with(|s| advance(pending_due(s))).done()
}

/// mid-range amounts carried to a received batch
pub fn seed_mid_received(k: &K) -> Sim {
    let mut s = seed_mid_amounts(k);
    assert!(s.apply(&submit(&p20("x"))).out.ok);
    let due = s.m.batches[&1].due;
    s.apply(&advance(due));
    let exp = s.m.batches[&1].expected.unwrap();
    let a = deliver(&s, 1, exp - 12_345);
    assert!(s.apply(&a).out.ok);
    s
}

/// four requesters in one due batch (the fourth is a 32-byte contract-like account staking for itself is
/// not possible, so a fourth 20-byte user)
pub fn seed_four_requesters(k: &K) -> Sim {
    let mut sc = Script::resumed(k);
    sc.s.fund(&p20("u4"), 100_000);
    sc = sc.run(stake(&u(1), 100)).run(stake(&u(2), 60)).run(stake(&u(3), 45)).run(stake(&p20("u4"), 33));
    sc = sc.with(|s| rewards(s, 50));
    sc = sc.with(|s| unstake(s, &u(1), 10)).with(|s| unstake(s, &u(2), 7)).with(|s| unstake(s, &u(3), 1)).with(|s| unstake(s, &p20("u4"), 9));
    sc.with(|s| advance(pending_due(s))).done()
}

/// account `r<i>` of the many-requester seeds
pub fn rq(i: u32) -> String {
    p20(&format!("r{i}"))
}

/// batches with many requesters: a first batch of `n` requesters (distinct amounts, three of them asking
/// twice) goes through submission, a short delivery and the withdrawal of everybody but `r1` in
/// descending address order; a second batch of `n - 7` requesters is pending and due. `u1`..`u3` hold
/// LST as well and are among the requesters of the second batch.
pub fn seed_many_requesters(k: &K, n: u32) -> Sim {
    let mut sc = Script::resumed(k);
    for i in 1..=n {
        sc.s.fund(&rq(i), 10_000);
    }
    for i in 1..=n {
        sc = sc.run(stake(&rq(i), 1_000 + 13 * i as u128));
    }
    sc = sc.run(stake(&u(1), 500)).run(stake(&u(2), 300)).run(stake(&u(3), 100));
    sc = sc.with(|s| rewards(s, 777));
    for i in 1..=n {
        sc = sc.with(move |s| unstake(s, &rq(i), 100 + 7 * i as u128));
    }
    for i in [2u32, 17, n] {
        sc = sc.with(move |s| unstake(s, &rq(i.min(n)), 5));
    }
    sc = sc.with(|s| advance(pending_due(s).max(s.w.time + 1))).run(submit(&p20("x")));
    sc = sc.with(|s| advance(s.m.batches[&1].due.max(s.w.time + 1)));
    sc = sc.with(|s| {
        let e = s.m.batches[&1].expected.unwrap();
        deliver(s, 1, e - 11)
    });
    let mut order: Vec<String> = (2..=n).map(rq).collect();
    order.sort();
    order.reverse();
    for who in order {
        sc = sc.run(withdraw(&who, 1));
    }
    for i in 8..=n {
        sc = sc.with(move |s| unstake(s, &rq(i), 30 + i as u128));
    }
    sc = sc.with(|s| unstake(s, &u(1), 10)).with(|s| unstake(s, &u(2), 7)).with(|s| unstake(s, &u(3), 1));
    sc.with(|s| advance(pending_due(s).max(s.w.time + 1))).done()
}

/// A store with a foreign history: the fields of the stored state that no operation of the current code
/// writes (the deprecated `rate` and `ibc_id_counter`) hold the values an earlier release left there, not
/// their instantiate defaults. Edited as JSON text, so that the tree's own types are not involved.
pub fn foreign_state(mut s: Sim) -> Sim {
    if let Some(raw) = s.w.kv.m.get(b"state".as_slice()).cloned() {
        if let Ok(serde_json::Value::Object(mut o)) = serde_json::from_slice::<serde_json::Value>(&raw) {
            if o.contains_key("rate") {
                o.insert("rate".into(), serde_json::json!("3"));
            }
            if o.contains_key("ibc_id_counter") {
                o.insert("ibc_id_counter".into(), serde_json::json!(42));
            }
            s.w.kv.m.insert(b"state".to_vec(), std::sync::Arc::new(serde_json::to_vec(&serde_json::Value::Object(o)).unwrap()));
        }
    }
    s
}

/// A crowd: `n` requesters (more than a thousand) in ONE batch. The stakes and unstakes are a bulk phase;
/// submission, delivery (short by 7) and the withdrawals of the first, the last and three middle requesters
/// are judged steps; everybody else but `r1`, `r2` and `r<n>` withdraws in bulk. A second batch with a third
/// of the crowd is pending and due.
pub fn seed_crowd(k: &K, n: u32) -> Sim {
    let mut sc = Script::resumed(k);
    for i in 1..=n {
        sc.s.fund(&rq(i), 10_000);
    }
    for i in 1..=n {
        sc = sc.quiet(stake(&rq(i), 1_000 + (i % 97) as u128));
    }
    sc = sc.run(stake(&u(1), 500)).run(stake(&u(2), 300)).run(stake(&u(3), 100));
    sc = sc.with(|s| rewards(s, 7_777));
    for i in 1..=n {
        if sc.dead {
            break;
        }
        let a = unstake(&sc.s, &rq(i), 100 + (i % 13) as u128);
        sc = if i % 250 == 0 { sc.run(a) } else { sc.quiet(a) };
    }
    sc = sc.with(|s| advance(pending_due(s).max(s.w.time + 1))).run(submit(&p20("x")));
    sc = sc.with(|s| advance(s.m.batches[&1].due.max(s.w.time + 1)));
    sc = sc.with(|s| {
        let e = s.m.batches[&1].expected.unwrap();
        deliver(s, 1, e - 7)
    });
    for i in [3, n / 2, n / 2 + 1, n - 1] {
        sc = sc.run(withdraw(&rq(i), 1));
    }
    for i in 4..n - 1 {
        if i != n / 2 && i != n / 2 + 1 {
            sc = sc.quiet(withdraw(&rq(i), 1));
        }
    }
    for i in (1..=n).step_by(3) {
        if sc.dead {
            break;
        }
        let a = unstake(&sc.s, &rq(i), 20 + (i % 5) as u128);
        sc = sc.quiet(a);
    }
    sc = sc.with(|s| unstake(s, &u(1), 10)).with(|s| unstake(s, &u(2), 7));
    sc.with(|s| advance(pending_due(s).max(s.w.time + 1))).done()
}

/// a store that still holds reply bookkeeping of an earlier release (the 1.0.0 -> 1.1.0 migration carries such
/// entries over; current code removes its own entry inside the transaction that wrote it)
pub fn leftover_reply(mut s: Sim, k: &K) -> Sim {
    let e = staking::state::IbcWaitingForReply { amount: cosmwasm_std::Coin::new(77, sd()), receiver: n20(k, "staker") };
    staking::state::IBC_WAITING_FOR_REPLY.save(&mut s.w.kv, 4_000_000_001, &e).expect("save leftover reply");
    s
}

/// block time beyond 2^32 seconds and deadlines more than 2^32 seconds apart
pub fn seed_far_future(k: &K) -> Sim {
    let mut sc = Script::resumed(k).run(stake(&u(1), 100)).run(stake(&u(2), 60));
    sc = sc.with(|s| unstake(s, &u(1), 30));
    sc = sc.with(|s| advance(s.w.time + (1u64 << 33)));
    sc.done()
}
