//! C19 — token-factory messages are correct for the target chain in both build variants.
//! The binary is built twice (default features / `miniwasm`); each build checks its own messages
//! with the hand-written protobuf reader along the LST and accounting searches and reports
//! order-independent digests of the explored graph, which `./check` compares across the builds.

use crate::common::Runner;
use crate::ledger;
use cosmwasm_std::{Coin, CosmosMsg, Uint128};
use mwsim::explore::{viol, Limits, Violation};
use mwsim::sim::*;
use mwsim::wire::{self, Fields, Val};
use mwsim::world::*;
use serde_json::{json, Value};

fn family() -> &'static str {
    if MINIWASM {
        "/miniwasm.tokenfactory.v1."
    } else {
        "/osmosis.tokenfactory.v1beta1."
    }
}

/// canonical bytes of a token-factory message as the target chain's .proto defines it
fn canon(op: &str, sender: &str, denom: &str, amount: &str, holder: Option<&str>) -> Vec<u8> {
    let mut f: Fields = vec![];
    if !sender.is_empty() {
        f.push((1, Val::Len(sender.as_bytes().to_vec())));
    }
    match op {
        "create" => {
            if !denom.is_empty() {
                f.push((2, Val::Len(denom.as_bytes().to_vec())));
            }
        }
        _ => {
            f.push((2, Val::Len(wire::enc_coin(denom, amount))));
            if let Some(h) = holder {
                if !h.is_empty() {
                    f.push((3, Val::Len(h.as_bytes().to_vec())));
                }
            }
        }
    }
    wire::write(&f)
}

fn check_events(pre: &Sim, a: &Act, ap: &Applied, post: &Sim) -> Vec<Violation> {
    let mut v = vec![];
    let me = contract_addr();
    let lst = pre.w.lst_denom();
    let mut minted = 0u128;
    let mut burned = 0u128;
    for e in &ap.out.events {
        match e {
            Ev::Mint { type_url, sender, denom, amount, to, raw } => {
                minted += amount;
                let want = canon("mint", &me, &lst, &amount.to_string(), Some(&me));
                if *type_url != format!("{}MsgMint", family()) || *sender != me || *to != me || *denom != lst || *raw != want {
                    v.push(viol("C19", "mint.message", format!("mint message {type_url} sender {sender} to {to} denom {denom} amount {amount}; bytes canonical: {}", *raw == want)));
                }
            }
            Ev::Burn { type_url, sender, denom, amount, from, raw } => {
                burned += amount;
                let want = canon("burn", &me, &lst, &amount.to_string(), if MINIWASM { None } else { Some(&me) });
                if *type_url != format!("{}MsgBurn", family()) || *sender != me || *from != me || *denom != lst || *raw != want {
                    v.push(viol("C19", "burn.message", format!("burn message {type_url} sender {sender} from {from} denom {denom} amount {amount}; bytes canonical: {}", *raw == want)));
                }
            }
            _ => {}
        }
    }
    if ap.out.ok {
        if let Act::Exec { msg: staking::msg::ExecuteMsg::LiquidStake { .. }, .. } = a {
            let d = ap.post_state.total_liquid_stake_token.u128().saturating_sub(ap.pre_state.total_liquid_stake_token.u128());
            if minted != d || minted == 0 {
                v.push(viol("C19", "mint.amount", format!("stake raised the LST total by {d} but minted {minted}")));
            }
        }
        if let Act::Exec { msg: staking::msg::ExecuteMsg::SubmitBatch {}, .. } = a {
            let total = pre.m.batches[&pre.m.pending].total;
            if burned != total {
                v.push(viol("C19", "burn.amount", format!("submitted batch of {total} LST but burned {burned}")));
            }
        }
    }
    let _ = post;
    v
}

/// direct grid over the three message constructors
fn constructor_grid(r: &mut Runner) {
    let long = "s".repeat(60);
    // 44 characters is the token-factory limit of the chains
    let limit = "t".repeat(44);
    let subs = ["umilkTIA", "abcd", limit.as_str(), long.as_str()];
    let amounts: [u128; 4] = [1, 37, 1_000_000_000_000_000_000_000_000_000, u128::MAX];
    // a 32-byte contract address under a 16-character prefix is 75 characters long: with a 44-character
    // sub-denom the factory denom has 128 characters, the longest the bank module accepts
    let senders = [contract_addr(), p32("another-contract"), mwsim::bech::addr("sixteencharprefx", "long-prefix-contract", 32), mwsim::bech::addr("a", "short-prefix-contract", 20)];
    let mut n = 0u64;
    let mut viols: Vec<(Violation, Value)> = vec![];
    let decode = |m: &CosmosMsg| -> Option<(String, Vec<u8>)> {
        match m {
            CosmosMsg::Stargate { type_url, value } => Some((type_url.clone(), value.to_vec())),
            _ => None,
        }
    };
    for s in &senders {
        for sub in subs {
            n += 1;
            let m = staking::tokenfactory::create_denom(s.clone(), sub.to_string()).ok().and_then(|m| decode(&m));
            let want = (format!("{}MsgCreateDenom", family()), canon("create", s, sub, "", None));
            if m.as_ref() != Some(&want) {
                viols.push((viol("C19", "create_denom.message", format!("create_denom({s},{sub}) -> {:?}", m.map(|x| x.0))), json!({"sender": s, "subdenom": sub})));
            }
            let denom = format!("factory/{s}/{sub}");
            for a in amounts {
                n += 2;
                let coin = Coin { denom: denom.clone(), amount: Uint128::new(a) };
                let m = staking::tokenfactory::mint(s.clone(), coin.clone(), s.clone()).ok().and_then(|m| decode(&m));
                let want = (format!("{}MsgMint", family()), canon("mint", s, &denom, &a.to_string(), Some(s)));
                if m.as_ref() != Some(&want) {
                    viols.push((viol("C19", "mint.constructor", format!("mint({s},{a}{denom}) -> {:?}", m.map(|x| x.0))), json!({"sender": s, "denom": denom, "amount": a.to_string()})));
                }
                let m = staking::tokenfactory::burn(s.clone(), coin, s.clone()).ok().and_then(|m| decode(&m));
                let want = (format!("{}MsgBurn", family()), canon("burn", s, &denom, &a.to_string(), if MINIWASM { None } else { Some(s) }));
                if m.as_ref() != Some(&want) {
                    viols.push((viol("C19", "burn.constructor", format!("burn({s},{a}{denom}) -> {:?}", m.map(|x| x.0))), json!({"sender": s, "denom": denom, "amount": a.to_string()})));
                }
            }
        }
    }
    r.grid("c19-constructors-senders-x-subdenoms-x-amounts", n, 3, n, 0, vec![json!({"sender": senders[0], "subdenom": "umilkTIA", "amount": "37", "family": family()})], viols);
}

/// instantiation emits exactly one create-denom for the configured sub-denom
fn instantiate_grid(r: &mut Runner) {
    let mut n = 0;
    let mut viols: Vec<(Violation, Value)> = vec![];
    for sub in ["umilkTIA", "abcd", "stTIAx"] {
        let mut k = K::k0();
        k.subdenom = sub.into();
        let mut w = match World::new(&k) {
            Ok(w) => w,
            Err(e) => {
                n += 1;
                viols.push((viol("C19", "instantiate.create_denom", format!("instantiate with sub-denom {sub} does not go through on the {} chain: {e}", if MINIWASM { "miniwasm" } else { "osmosis" })), json!({"subdenom": sub})));
                continue;
            }
        };
        // World::new discards the instantiate trace: re-run it on an empty store
        w.kv = Default::default();
        w.factory.clear();
        let out = w.instantiate(&p20("adm"), instantiate_msg(&k));
        n += 1;
        let creates: Vec<(String, String, String, bool)> = out
            .events
            .iter()
            .filter_map(|e| match e {
                Ev::CreateDenom { type_url, sender, subdenom, raw } => Some((type_url.clone(), sender.clone(), subdenom.clone(), *raw == canon("create", &contract_addr(), sub, "", None))),
                _ => None,
            })
            .collect();
        if !out.ok || creates != vec![(format!("{}MsgCreateDenom", family()), contract_addr(), sub.to_string(), true)] || w.config().liquid_stake_token_denom != format!("factory/{}/{sub}", contract_addr()) {
            viols.push((viol("C19", "instantiate.create_denom", format!("instantiate with sub-denom {sub}: ok={} creates {:?}", out.ok, creates)), json!({"subdenom": sub})));
        }
    }
    r.grid("c19-instantiate-create-denom", n, 3, n, 0, vec![json!({"subdenom": "umilkTIA", "family": family()})], viols);
}

pub fn plans(thorough: bool) -> Vec<ledger::Plan> {
    let mut out = vec![];
    for mut p in ledger::plans("C03", thorough).into_iter().chain(ledger::plans("C01", thorough).into_iter().take(1)) {
        p.sc.name = format!("c19-{}", p.sc.name);
        p.sc.props = vec![];
        p.sc.extra_step = Some(Box::new(check_events));
        if p.sc.name.contains("acct") {
            p.depth = p.depth.saturating_sub(1).max(3);
        } else if thorough && !p.sc.name.ends_with("+deep") {
            // one level less than the C03 thorough search, so that both builds complete it and the
            // graphs can be compared
            p.depth = p.depth.saturating_sub(1).max(3);
        }
        p.required = vec!["LiquidStake:ok", "SubmitBatch:ok"];
        out.push(p);
    }
    out
}

pub fn run(thorough: bool) -> i32 {
    let mut r = Runner::new("C19", if thorough { "thorough" } else { "quick" });
    r.assumptions.push("field numbers of osmosis.tokenfactory.v1beta1 / miniwasm.tokenfactory.v1 Msg{CreateDenom,Mint,Burn} written from their .proto definitions; the simulated chain only routes the token-factory family of the build's target chain".into());
    constructor_grid(&mut r);
    instantiate_grid(&mut r);
    // configuration validation is behaviour too: both builds must accept exactly the same configurations
    let d = crate::config_grid::accept_reject_digest();
    r.evaluations += d["cases"].as_u64().unwrap_or(0);
    r.graph_digests.push(d);
    for p in plans(thorough) {
        let lim = Limits { max_depth: p.depth, max_states: 5_000_000, max_wall_s: if thorough { 2000.0 } else { 150.0 } };
        r.run_scenario(&p.sc, lim, &p.required);
    }
    r.finish()
}
