//! Run bookkeeping shared by all checks: exploration runs, grid sweeps, known findings,
//! replay artefacts, evidence files, exit codes.

use crate::scen::StakingScenario;
use mwsim::explore::{explore, replay, Limits, Scenario, Violation};
use mwsim::sim::Act;
use serde_json::{json, Value};
use std::collections::BTreeMap;
use std::time::Instant;

pub fn verif_dir() -> String {
    std::env::var("VERIF_DIR").unwrap_or_else(|_| "/verif".to_string())
}

#[derive(Clone, Debug)]
pub struct Known {
    pub property: String,
    pub key: String,
    pub what: String,
}

pub fn load_known() -> Vec<Known> {
    let p = format!("{}/known_findings.json", verif_dir());
    let Ok(s) = std::fs::read_to_string(&p) else { return vec![] };
    let v: Value = serde_json::from_str(&s).expect("known_findings.json is not valid JSON");
    v["findings"]
        .as_array()
        .map(|a| {
            a.iter()
                .map(|f| Known {
                    property: f["property"].as_str().unwrap_or("").to_string(),
                    key: f["key"].as_str().unwrap_or("").to_string(),
                    what: f["what"].as_str().unwrap_or("").to_string(),
                })
                .collect()
        })
        .unwrap_or_default()
}

pub struct Runner {
    pub prop: String,
    pub tier: String,
    pub build: String,
    t0: Instant,
    pub states: u64,
    pub transitions: u64,
    pub validated: u64,
    pub probes: u64,
    pub evaluations: u64,
    pub distinct: u64,
    pub tags: BTreeMap<String, u64>,
    pub samples: Vec<Value>,
    pub caps: Vec<String>,
    pub runs: Vec<Value>,
    pub violations: Vec<(Violation, Value)>, // violation + replay artefact body
    pub known_hits: Vec<Violation>,
    pub machinery: Vec<String>,
    pub assumptions: Vec<String>,
    pub notes: Vec<String>,
    pub known: Vec<Known>,
    pub rule: String,
    /// order-independent digests of the explored graphs (C19 compares them across builds)
    pub graph_digests: Vec<Value>,
}

impl Runner {
    pub fn new(prop: &str, tier: &str) -> Runner {
        Runner {
            prop: prop.to_string(),
            tier: tier.to_string(),
            build: if cfg!(feature = "miniwasm") { "miniwasm".into() } else { "osmosis".into() },
            t0: Instant::now(),
            states: 0,
            transitions: 0,
            validated: 0,
            probes: 0,
            evaluations: 0,
            distinct: 0,
            tags: BTreeMap::new(),
            samples: vec![],
            caps: vec![],
            runs: vec![],
            violations: vec![],
            known_hits: vec![],
            machinery: vec![],
            assumptions: vec![
                "environment is the deterministic chain simulator of DESIGN §2.2 (wasmd tx/submessage/reply semantics, x/bank, tokenfactory, ICS-20 escrow+ack/timeout, ibc-hooks sender derived independently)".into(),
                "native build of the contract crates with overflow-checks=on stands for the wasm artefact".into(),
                "zero-amount bank sends are accepted by the simulated bank and counted (DESIGN O1)".into(),
            ],
            notes: vec![],
            known: load_known(),
            rule: String::new(),
            graph_digests: vec![],
        }
    }

    pub fn known_keys(&self) -> Vec<String> {
        self.known.iter().filter(|k| k.property == self.prop).map(|k| k.key.clone()).collect()
    }

    /// Explore one scenario exhaustively up to the limits; `required` are tags that must have been
    /// hit at least once (reachability goals / actions that must have succeeded), else the run is
    /// vacuous (machinery failure).
    pub fn run_scenario(&mut self, sc: &StakingScenario, lim: Limits, required: &[&str]) {
        let keys = self.known_keys();
        let rep = explore(sc, &lim, &keys);
        self.states += rep.states;
        self.transitions += rep.transitions;
        self.validated += rep.validated;
        self.probes += rep.probes;
        for (k, v) in &rep.tags {
            *self.tags.entry(format!("{}/{}", sc.name, k)).or_insert(0) += v;
        }
        if let Some(c) = &rep.capped {
            self.caps.push(format!("{}: {}", sc.name, c));
        }
        for (seed, path) in rep.sample_paths.iter().take(2) {
            if self.samples.len() < 6 {
                self.samples.push(json!({"scenario": sc.name, "seed": seed, "path": path}));
            }
        }
        self.graph_digests.push(json!({"scenario": sc.name, "states": rep.states, "transitions": rep.transitions, "capped": rep.capped.is_some(),
            "state_xor": format!("{:032x}", rep.state_acc.0), "state_sum": format!("{:032x}", rep.state_acc.1),
            "transition_xor": format!("{:032x}", rep.trans_acc.0), "transition_sum": format!("{:032x}", rep.trans_acc.1)}));
        let ok_actions = rep.tags.iter().filter(|(k, _)| k.ends_with(":ok")).count();
        self.runs.push(json!({
            "scenario": sc.name, "build": self.build, "seeds": sc.seeds.iter().map(|s| s.0.clone()).collect::<Vec<_>>(),
            "states": rep.states, "transitions": rep.transitions, "depth_completed": rep.max_depth, "levels": rep.levels,
            "probes": rep.probes, "wall_s": rep.wall_s, "capped": rep.capped, "distinct_action_kinds_succeeded": ok_actions,
            "tags": rep.tags,
        }));
        let aborted = rep.found.iter().any(|f| !f.known) || rep.capped.is_some();
        for r in required {
            if !aborted && !rep.tags.contains_key(*r) {
                self.machinery.push(format!("vacuous exploration: scenario {} never hit required tag {}", sc.name, r));
            }
        }
        for f in rep.found {
            if f.violation.property == "MACHINERY" {
                self.machinery.push(format!("{}: {} {} (seed {} path {})", sc.name, f.violation.key, f.violation.detail, f.seed, serde_json::to_string(&f.path).unwrap()));
                continue;
            }
            // determinism: the path must reproduce the same violation key twice on fresh worlds
            let mut reproduced = 0;
            for _ in 0..2 {
                if let Ok((vs, _)) = replay(sc, &f.seed, &f.path) {
                    if vs.iter().any(|v| v.key == f.violation.key && v.property == f.violation.property) {
                        reproduced += 1;
                    }
                }
            }
            if reproduced != 2 {
                self.machinery.push(format!("non-deterministic violation {} in {} (reproduced {}/2)", f.violation.key, sc.name, reproduced));
                continue;
            }
            if f.known {
                self.known_hits.push(f.violation.clone());
            } else if f.violation.property == self.prop {
                let body = json!({"kind": "path", "property": self.prop, "scenario": sc.name, "build": self.build, "seed": f.seed, "path": f.path,
                                  "key": f.violation.key, "detail": f.violation.detail});
                self.violations.push((f.violation.clone(), body));
            } else {
                self.notes.push(format!("cross-check (not deciding): {} {} {}", f.violation.property, f.violation.key, f.violation.detail));
            }
        }
    }

    /// Explore a scenario with the primary engine and, additionally, with stateright's BFS; the sets
    /// of distinct worlds reached by the two engines must be identical (count, xor, sum of fingerprints).
    pub fn run_scenario_crosschecked(&mut self, sc: std::sync::Arc<StakingScenario>, lim: Limits, required: &[&str]) {
        let depth = lim.max_depth;
        let before_states = self.graph_digests.len();
        self.run_scenario(&sc, lim, required);
        if !self.violations.is_empty() || !self.machinery.is_empty() || !self.caps.is_empty() {
            return;
        }
        let Some(d) = self.graph_digests.get(before_states).cloned() else { return };
        let x = crate::xcheck::run_stateright(sc.clone(), depth);
        let same = d["states"].as_u64() == Some(x.worlds) && d["state_xor"].as_str() == Some(format!("{:032x}", x.xor).as_str()) && d["state_sum"].as_str() == Some(format!("{:032x}", x.sum).as_str());
        self.runs.push(json!({"crosscheck": "stateright-0.31 bfs", "scenario": sc.name, "depth": depth, "distinct_worlds": x.worlds, "stateright_states_with_depth": x.sr_states, "agrees_with_primary_engine": same, "violation_seen": x.violated}));
        if !same || x.violated {
            self.machinery.push(format!("engine cross-check failed for {}: primary engine {} worlds, stateright {} worlds (violated={})", sc.name, d["states"], x.worlds, x.violated));
        } else {
            self.notes.push(format!("cross-check: stateright BFS reached the same {} distinct worlds as the primary engine in {} (depth {})", x.worlds, sc.name, depth));
        }
    }

    /// Record an exhaustive grid sweep.
    #[allow(clippy::too_many_arguments)]
    pub fn grid(&mut self, name: &str, evaluations: u64, distinct_outcomes: u64, accepted: u64, rejected: u64, samples: Vec<Value>, viols: Vec<(Violation, Value)>) {
        self.evaluations += evaluations;
        self.distinct += distinct_outcomes;
        // for the model-checking counts a grid case is one state (an input) and one transition (the call)
        self.states += evaluations;
        self.transitions += evaluations;
        self.validated += evaluations;
        self.runs.push(json!({"grid": name, "build": self.build, "evaluations": evaluations, "distinct_outcomes": distinct_outcomes, "accepted": accepted, "rejected": rejected}));
        for s in samples.into_iter().take(3) {
            self.samples.push(json!({"grid": name, "case": s}));
        }
        let keys = self.known_keys();
        let mut seen: Vec<String> = vec![];
        for (v, case) in viols {
            if seen.contains(&v.key) {
                continue;
            }
            seen.push(v.key.clone());
            if v.property == "MACHINERY" {
                self.machinery.push(format!("{name}: {} {}", v.key, v.detail));
            } else if keys.contains(&v.key) {
                self.known_hits.push(v);
            } else {
                let body = json!({"kind": "case", "property": self.prop, "grid": name, "build": self.build, "case": case, "key": v.key, "detail": v.detail});
                self.violations.push((v, body));
            }
        }
    }

    pub fn require(&mut self, cond: bool, what: &str) {
        if !cond {
            self.machinery.push(format!("vacuity / self-test failure: {what}"));
        }
    }

    pub fn evidence(&self, n_viol: usize) -> Value {
        let mut samples = self.samples.clone();
        if samples.is_empty() {
            samples.push(json!("no sample recorded"));
        }
        let distinct_ok_actions = self.tags.iter().filter(|(k, v)| k.ends_with(":ok") && **v > 0).count() as u64;
        json!({
            "property_id": self.prop,
            "tier": self.tier,
            "seed": std::env::var("VERIF_SEED").ok().and_then(|s| s.parse::<i64>().ok()).unwrap_or(0),
            "level": "model_checking",
            "coverage": {
                "states": self.states,
                "transitions": self.transitions,
                "traces_validated_against_impl": self.validated,
                "samples": samples,
                "evaluations": self.evaluations.max(self.transitions),
                "distinct_nontrivial": self.distinct.max(self.states).max(distinct_ok_actions),
                "rule": if self.rule.is_empty() { "every distinct simulator world (128-bit fingerprint of the complete value) reached by exhaustive BFS is a distinct case; every transition executes the real contract entry points; grid cases are complete products of the per-dimension alphabets".to_string() } else { self.rule.clone() },
                "exhaustive": self.caps.is_empty(),
                "caps_hit": self.caps,
                "probes": self.probes,
                "build": self.build,
                "runs": self.runs,
                "known_findings_hit": self.known_hits.iter().map(|v| v.key.clone()).collect::<Vec<_>>(),
                "notes": self.notes,
                "graph_digests": self.graph_digests,
            },
            "assumptions": self.assumptions,
            "wall_s": self.t0.elapsed().as_secs_f64(),
            "violations": n_viol,
        })
    }

    /// write evidence + replay artefacts, print verdict lines, return the exit code
    pub fn finish(self) -> i32 {
        let dir = verif_dir();
        let suffix = if self.build == "miniwasm" { ".miniwasm" } else { "" };
        let ev_path = std::env::var("VERIF_EVIDENCE_OUT").unwrap_or_else(|_| format!("{dir}/evidence/{}{suffix}.json", self.prop));
        let _ = std::fs::create_dir_all(format!("{dir}/evidence"));
        let _ = std::fs::create_dir_all(format!("{dir}/replays"));
        let ev = self.evidence(self.violations.len());
        std::fs::write(&ev_path, serde_json::to_string_pretty(&ev).unwrap()).expect("write evidence");
        println!(
            "[{} {} {}] states={} transitions={} probes={} grid_evaluations={} wall={:.1}s caps={:?}",
            self.prop, self.tier, self.build, self.states, self.transitions, self.probes, self.evaluations, self.t0.elapsed().as_secs_f64(), self.caps
        );
        if !self.machinery.is_empty() && self.violations.is_empty() {
            for m in &self.machinery {
                println!("MACHINERY-ERROR: {m}");
            }
            return 2;
        }
        // a violation that was found (and reproduced) stands even if, because of it, other parts of the run
        // could not do their work (seeds that cannot be built, goals that were never reached)
        for m in &self.machinery {
            println!("MACHINERY-NOTE (not deciding, a violation is reported below): {m}");
        }
        let mut printed: Vec<String> = vec![];
        for v in &self.known_hits {
            if printed.contains(&v.key) {
                continue;
            }
            printed.push(v.key.clone());
            println!("KNOWN-FINDING: property={} {} — {}", v.property, v.key, v.detail);
        }
        if self.violations.is_empty() {
            println!("OK property={} held on everything explored", self.prop);
            return 0;
        }
        for (v, body) in &self.violations {
            let mut h = std::collections::hash_map::DefaultHasher::new();
            use std::hash::{Hash, Hasher};
            v.key.hash(&mut h);
            self.build.hash(&mut h);
            body["scenario"].as_str().unwrap_or("").hash(&mut h);
            let path = format!("{dir}/replays/{}-{:08x}.json", self.prop, (h.finish() & 0xffff_ffff) as u32);
            std::fs::write(&path, serde_json::to_string_pretty(body).unwrap()).expect("write replay");
            println!("DETAIL {} {}: {}", v.property, v.key, v.detail);
            println!("VIOLATION property={} replay={}", self.prop, path);
        }
        1
    }
}

/// replay a "path" artefact against a list of candidate scenarios
pub fn replay_path(prop: &str, body: &Value, scenarios: Vec<StakingScenario>) -> i32 {
    let name = body["scenario"].as_str().unwrap_or("");
    let seed = body["seed"].as_str().unwrap_or("");
    let key = body["key"].as_str().unwrap_or("");
    let path: Vec<Act> = serde_json::from_value(body["path"].clone()).expect("path");
    let Some(sc) = scenarios.into_iter().find(|s| s.name() == name) else {
        println!("MACHINERY-ERROR: unknown scenario {name}");
        return 2;
    };
    match replay(&sc, seed, &path) {
        Ok((vs, _)) => {
            if let Some(v) = vs.iter().find(|v| v.key == key) {
                println!("DETAIL {} {}: {}", v.property, v.key, v.detail);
                println!("VIOLATION property={} replay=(replayed)", prop);
                1
            } else {
                println!("OK replay did not reproduce {key} ({} other violations)", vs.len());
                0
            }
        }
        Err(e) => {
            println!("MACHINERY-ERROR: {e}");
            2
        }
    }
}
