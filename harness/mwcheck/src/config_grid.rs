//! C14 — only well-formed configuration is accepted; updates are sectional.
//! Exhaustive single and pairwise field corruption of valid configurations, applied to
//! `instantiate` and to `UpdateConfig` with every subset of the five sections; validator
//! add/remove over an address menu. Oracle: an independently written well-formedness predicate
//! on the *stored* configuration (soundness direction only) and byte-comparison of untouched sections.

use crate::common::Runner;
use mwsim::bech;
use mwsim::explore::{viol, Violation};
use mwsim::world::*;
use rayon::prelude::*;
use serde_json::{json, Value};
use staking::msg::{ExecuteMsg, InstantiateMsg};

type V = Vec<(Violation, Value)>;

#[derive(Clone, Debug)]
struct Field {
    /// JSON path inside the message ("native_chain_config.staker_address", "monitors[0]", …)
    path: Vec<String>,
    kind: &'static str, // addr | prefix | channel | ibcdenom | subdenom | list
    section: &'static str,
}

fn fields(with_optional: bool) -> Vec<Field> {
    let f = |p: &str, kind: &'static str, section: &'static str| Field { path: p.split('.').map(|s| s.to_string()).collect(), kind, section };
    let mut v = vec![
        f("native_chain_config.account_address_prefix", "prefix", "native"),
        f("native_chain_config.validator_address_prefix", "prefix", "native"),
        f("native_chain_config.token_denom", "subdenom", "native"),
        f("native_chain_config.validators", "list", "native"),
        f("native_chain_config.validators.0", "addr", "native"),
        f("native_chain_config.staker_address", "addr", "native"),
        f("native_chain_config.reward_collector_address", "addr", "native"),
        f("protocol_chain_config.account_address_prefix", "prefix", "protocol"),
        f("protocol_chain_config.ibc_token_denom", "ibcdenom", "protocol"),
        f("protocol_chain_config.ibc_channel_id", "channel", "protocol"),
        f("monitors", "list", "monitors"),
        f("monitors.0", "addr", "monitors"),
    ];
    if with_optional {
        v.push(f("protocol_chain_config.oracle_address", "optaddr", "protocol"));
        v.push(f("protocol_fee_config.treasury_address", "optaddr", "fee"));
    }
    v
}

fn get<'a>(v: &'a mut Value, path: &[String]) -> Option<&'a mut Value> {
    let mut cur = v;
    for p in path {
        cur = match cur {
            Value::Object(m) => m.get_mut(p)?,
            Value::Array(a) => a.get_mut(p.parse::<usize>().ok()?)?,
            _ => return None,
        };
    }
    Some(cur)
}

fn reprefix(addr: &str, hrp: &str) -> Option<String> {
    let d = bech::decode(addr)?;
    Some(bech::encode(hrp, &d.payload))
}

/// corruption operators; each returns the corrupted JSON value of the field
fn corruptions(kind: &str, cur: &Value) -> Vec<(String, Value)> {
    let mut out: Vec<(String, Value)> = vec![];
    if kind == "optaddr" {
        // an optional address may also be dropped (a valid value: the stored section must then lose it too)
        let mut v = corruptions("addr", cur);
        v.push(("absent".into(), Value::Null));
        return v;
    }
    match kind {
        "addr" => {
            let s = cur.as_str().unwrap_or("").to_string();
            let d = bech::decode(&s);
            let other = match d.as_ref().map(|d| d.hrp.as_str()) {
                Some("osmo") => "celestia",
                Some("celestia") => "osmo",
                Some("celestiavaloper") => "celestia",
                _ => "cosmos",
            };
            let mut flip = s.clone();
            if let Some(c) = flip.pop() {
                flip.push(if c == 'q' { 'p' } else { 'q' });
            }
            let mut midflip: Vec<char> = s.chars().collect();
            if midflip.len() > 12 {
                midflip[12] = if midflip[12] == 'q' { 'p' } else { 'q' };
            }
            let mut up1: Vec<char> = s.chars().collect();
            if let Some(i) = up1.iter().rposition(|c| c.is_ascii_lowercase()) {
                up1[i] = up1[i].to_ascii_uppercase();
            }
            out.push(("empty".into(), json!("")));
            out.push(("drop_first".into(), json!(s.chars().skip(1).collect::<String>())));
            out.push(("drop_last".into(), json!(s.chars().take(s.len().saturating_sub(1)).collect::<String>())));
            out.push(("upper_all".into(), json!(s.to_uppercase())));
            out.push(("upper_one".into(), json!(up1.into_iter().collect::<String>())));
            out.push(("other_prefix".into(), json!(reprefix(&s, other).unwrap_or_default())));
            out.push(("flip_last".into(), json!(flip)));
            out.push(("flip_mid".into(), json!(midflip.into_iter().collect::<String>())));
            out.push(("extra_char".into(), json!(format!("{s}q"))));
            out.push(("non_ascii".into(), json!(format!("{}é", &s[..s.len().saturating_sub(1)]))));
            out.push(("hrp_only".into(), json!(d.map(|d| format!("{}1", d.hrp)).unwrap_or_default())));
            out.push(("space".into(), json!(format!(" {s}"))));
            // checksum-valid address whose real prefix is "<prefix>1x": bech32 splits at the LAST '1'
            if let Some(d) = bech::decode(&s) {
                out.push(("prefix_with_separator".into(), json!(bech::encode(&format!("{}1x", d.hrp), &d.payload))));
                out.push(("prefix_extended".into(), json!(bech::encode(&format!("{}x", d.hrp), &d.payload))));
                // unusual but valid payload lengths
                out.push(("payload_1_byte".into(), json!(bech::encode(&d.hrp, &d.payload[..1]))));
                out.push(("payload_32_bytes".into(), json!(bech::addr(&d.hrp, "other-32", 32))));
            }
        }
        "prefix" => {
            let s = cur.as_str().unwrap_or("").to_string();
            let other = if s == "osmo" { "celestia" } else { "osmo" };
            let mut mixed: Vec<char> = s.chars().collect();
            if let Some(c) = mixed.first_mut() {
                *c = c.to_ascii_uppercase();
            }
            out.push(("empty".into(), json!("")));
            out.push(("upper_all".into(), json!(s.to_uppercase())));
            out.push(("mixed".into(), json!(mixed.into_iter().collect::<String>())));
            out.push(("other".into(), json!(other)));
            out.push(("non_ascii".into(), json!(format!("{s}é"))));
            out.push(("space".into(), json!(format!("{s} "))));
            out.push(("too_long".into(), json!("a".repeat(84))));
            out.push(("drop_last".into(), json!(s.chars().take(s.len().saturating_sub(1)).collect::<String>())));
            out.push(("with_one".into(), json!(format!("{s}1"))));
            // look-alikes: Cyrillic o (U+043E), dotless i (U+0131), Kelvin sign (U+212A), fullwidth letters;
            // their code points truncated to one byte are printable ASCII
            let mut hg: Vec<char> = s.chars().collect();
            if let Some(c) = hg.first_mut() {
                *c = '\u{43e}';
            }
            out.push(("homoglyph_first".into(), json!(hg.iter().collect::<String>())));
            out.push(("homoglyph_appended".into(), json!(format!("{s}\u{131}"))));
            out.push(("kelvin_sign".into(), json!(format!("\u{212a}{s}"))));
            out.push(("fullwidth".into(), json!(s.chars().map(|c| char::from_u32(c as u32 + 0xfee0).unwrap_or(c)).collect::<String>())));
        }
        "channel" => {
            for c in [
                "channel-", "channel", "channel-x", "channel-1x", "channel--1", "channel-+1", "Channel-1", " channel-1", "channel-1 ", "channel-18446744073709551616", "channel-01", "", "channel-1/2",
                "channel-٣", "channel-1\n", "channel-0x1", "channel-1e3", "CHANNEL-1", "channel-+0", "channel-99999999999999999999", "channel-channel-1", "channel-1-1", "channel-1\0", "transfer/channel-1", "channel-1/", "channel-\u{ff11}",
            ] {
                out.push((format!("ch:{c:?}"), json!(c)));
            }
        }
        "ibcdenom" => {
            let h = "C3E53D20BC7A4CC993B17C7971F8ECD06A433C10B6A96F4C4C3714F0624C56DA";
            for (n, c) in [
                ("63", format!("ibc/{}", &h[..63])),
                ("65", format!("ibc/{h}0")),
                ("upper_prefix", format!("IBC/{h}")),
                ("no_prefix", h.to_string()),
                ("empty", String::new()),
                ("only_prefix", "ibc/".to_string()),
                ("utia", "utia".to_string()),
                ("non_ascii_64_bytes", format!("ibc/{}é", &h[..62])),
                ("space", format!(" ibc/{h}")),
                ("factory", format!("factory/{}/x", contract_addr())),
                // the prefix written twice or three times (a script prepending "ibc/" to a full denom), a suffix,
                // another separator, an inner slash: every well-spelt part is there, the whole is not a voucher denom
                ("prefix_twice", format!("ibc/ibc/{h}")),
                // other voucher / bridge namespaces followed by a well-formed hash
                ("l2_prefix", format!("l2/{h}")),
                ("transfer_prefix", format!("transfer/{h}")),
                ("ibc2_prefix", format!("ibc2/{h}")),
                ("cw20_prefix", format!("cw20:{h}")),
                ("gamm_prefix", format!("gamm/pool/{}", &h[..55])),
                ("prefix_thrice", format!("ibc/ibc/ibc/{h}")),
                ("prefix_then_trace", format!("ibc/transfer/channel-0/{h}")),
                ("suffix_slash", format!("ibc/{h}/")),
                ("two_hashes", format!("ibc/{h}{h}")),
                ("backslash", format!("ibc\\{h}")),
                ("tab", format!("ibc/{h}\t")),
                ("nul", format!("ibc/{}\0", &h[..63])),
            ] {
                out.push((format!("denom:{n}"), json!(c)));
            }
        }
        "subdenom" => {
            for c in ["abc", "ab1d", "ab-d", "", "ab d", "abcé", "factory/x/y", "a", "abcd/", "ABCD9", "ab_cd", "ab.cd"] {
                out.push((format!("sub:{c:?}"), json!(c)));
            }
        }
        "list" => {
            let arr = cur.as_array().cloned().unwrap_or_default();
            let first = arr.first().and_then(|x| x.as_str()).unwrap_or("").to_string();
            let d = bech::decode(&first);
            let other = match d.as_ref().map(|d| d.hrp.as_str()) {
                Some("osmo") => "celestia",
                _ => "osmo",
            };
            let mut dup = arr.clone();
            dup.push(json!(first.clone()));
            let mut dup_front = vec![json!(first.clone())];
            dup_front.extend(arr.clone());
            let mut otherp = arr.clone();
            otherp.push(json!(reprefix(&first, other).unwrap_or_default()));
            let mut badsum = arr.clone();
            let mut f2 = first.clone();
            if let Some(c) = f2.pop() {
                f2.push(if c == 'q' { 'p' } else { 'q' });
            }
            badsum.push(json!(f2));
            let mut up = arr.clone();
            up.push(json!(first.to_uppercase()));
            let mut empty_entry = arr.clone();
            empty_entry.push(json!(""));
            out.push(("dup_append".into(), Value::Array(dup)));
            out.push(("dup_front".into(), Value::Array(dup_front)));
            out.push(("append_other_prefix".into(), Value::Array(otherp)));
            out.push(("append_bad_checksum".into(), Value::Array(badsum)));
            out.push(("append_upper_twin".into(), Value::Array(up)));
            out.push(("append_empty".into(), Value::Array(empty_entry)));
            if let Some(d) = bech::decode(&first) {
                let mut sep = arr.clone();
                sep.push(json!(bech::encode(&format!("{}1x", d.hrp), &bech::decode(&bech::addr(&d.hrp, "sep-entry", 20)).unwrap().payload)));
                out.push(("append_prefix_with_separator".into(), Value::Array(sep)));
            }
            out.push(("empty_list".into(), json!([])));
        }
        _ => {}
    }
    out
}

// ------------------------------------------------------------------ independent predicate
fn prefix_ok(p: &str) -> bool {
    !p.is_empty() && p.len() <= 83 && p.bytes().all(|b| (33..=126).contains(&b)) && !p.bytes().any(|b| b.is_ascii_uppercase())
}
fn addr_ok(a: &str, prefix: &str) -> bool {
    bech::decode(a).map(|d| d.hrp == prefix).unwrap_or(false)
}
fn channel_ok(c: &str) -> bool {
    match c.strip_prefix("channel-") {
        Some(n) => !n.is_empty() && n.len() <= 20 && n.bytes().all(|b| b.is_ascii_digit()),
        None => false,
    }
}
fn ibc_denom_ok(d: &str) -> bool {
    d.starts_with("ibc/") && d.chars().count() == 68 && d.len() == 68
}
fn alpha_ok(d: &str) -> bool {
    !d.is_empty() && d.bytes().all(|b| b.is_ascii_alphabetic())
}
fn no_dups(v: &[String]) -> bool {
    let mut s = v.to_vec();
    s.sort();
    s.dedup();
    s.len() == v.len()
}

/// problems of the stored configuration, restricted to the given sections
fn stored_problems(cfg: &staking::msg::ConfigResponse, sections: &[&str]) -> Vec<String> {
    let mut p = vec![];
    let n = &cfg.native_chain_config;
    let pc = &cfg.protocol_chain_config;
    if sections.contains(&"native") {
        if !prefix_ok(&n.account_address_prefix) {
            p.push(format!("native_prefix|native account prefix {:?}", n.account_address_prefix));
        }
        if !prefix_ok(&n.validator_address_prefix) {
            p.push(format!("validator_prefix|native validator prefix {:?}", n.validator_address_prefix));
        }
        if !alpha_ok(&n.token_denom) {
            p.push(format!("native_denom|native token denom {:?}", n.token_denom));
        }
        let vals: Vec<String> = n.validators.iter().map(|a| a.to_string()).collect();
        for v in &vals {
            if !addr_ok(v, &n.validator_address_prefix) {
                p.push(format!("validator_address|validator {v:?} not a valid {} address", n.validator_address_prefix));
            }
        }
        if !no_dups(&vals) {
            p.push("validator_duplicate|validator listed twice".into());
        }
        if !addr_ok(n.staker_address.as_str(), &n.account_address_prefix) {
            p.push(format!("staker_address|staker {:?}", n.staker_address));
        }
        if !addr_ok(n.reward_collector_address.as_str(), &n.account_address_prefix) {
            p.push(format!("collector_address|reward collector {:?}", n.reward_collector_address));
        }
    }
    if sections.contains(&"protocol") {
        if !prefix_ok(&pc.account_address_prefix) {
            p.push(format!("protocol_prefix|protocol account prefix {:?}", pc.account_address_prefix));
        }
        if !channel_ok(&pc.ibc_channel_id) {
            p.push(format!("channel|channel {:?} is not channel-<n>", pc.ibc_channel_id));
        }
        if !ibc_denom_ok(&pc.ibc_token_denom) {
            p.push(format!("ibc_denom|staked-asset denom {:?} is not ibc/ + 64 characters", pc.ibc_token_denom));
        }
        if let Some(o) = &pc.oracle_address {
            if !addr_ok(o.as_str(), &pc.account_address_prefix) {
                p.push(format!("oracle_address|oracle {o:?}"));
            }
        }
    }
    if sections.contains(&"fee") {
        if let Some(t) = &cfg.protocol_fee_config.treasury_address {
            if !addr_ok(t.as_str(), &pc.account_address_prefix) {
                p.push(format!("treasury_address|treasury {t:?} not under {}", pc.account_address_prefix));
            }
        }
    }
    if sections.contains(&"monitors") {
        let mons: Vec<String> = cfg.monitors.iter().map(|a| a.to_string()).collect();
        for m in &mons {
            if !addr_ok(m, &pc.account_address_prefix) {
                p.push(format!("monitor_address|monitor {m:?} not under {}", pc.account_address_prefix));
            }
        }
        if !no_dups(&mons) {
            p.push("monitor_duplicate|monitor listed twice".into());
        }
    }
    if sections.contains(&"lst") {
        let sub = cfg.liquid_stake_token_denom.rsplit('/').next().unwrap_or("");
        if !alpha_ok(sub) || !cfg.liquid_stake_token_denom.starts_with(&format!("factory/{}/", contract_addr())) {
            p.push(format!("lst_denom|LST denom {:?}", cfg.liquid_stake_token_denom));
        }
    }
    p
}

fn base_configs() -> Vec<(K, Value)> {
    [K::k0(), K::k1(), K::k2()].into_iter().map(|k| (k.clone(), serde_json::to_value(instantiate_msg(&k)).unwrap())).collect()
}

#[derive(Clone)]
struct Mutation {
    desc: String,
    edits: Vec<(Vec<String>, Value)>,
    sections: Vec<&'static str>,
}

fn mutations(base: &Value, fields: &[Field], extra_lst: bool) -> Vec<Mutation> {
    let mut singles: Vec<(usize, String, Vec<String>, Value, &'static str)> = vec![];
    let mut b = base.clone();
    for (fi, f) in fields.iter().enumerate() {
        let Some(cur) = get(&mut b, &f.path) else { continue };
        if cur.is_null() {
            continue;
        }
        let cur = cur.clone();
        for (name, val) in corruptions(f.kind, &cur) {
            singles.push((fi, format!("{}:{}", f.path.join("."), name), f.path.clone(), val, f.section));
        }
    }
    if extra_lst {
        for (name, val) in corruptions("subdenom", &json!("umilkTIA")) {
            singles.push((999, format!("liquid_stake_token_denom:{name}"), vec!["liquid_stake_token_denom".into()], val, "lst"));
        }
    }
    let mut out = vec![Mutation { desc: "none".into(), edits: vec![], sections: vec![] }];
    for s in &singles {
        out.push(Mutation { desc: s.1.clone(), edits: vec![(s.2.clone(), s.3.clone())], sections: vec![s.4] });
    }
    for i in 0..singles.len() {
        for j in (i + 1)..singles.len() {
            if singles[i].0 == singles[j].0 {
                continue; // two corruptions of the same field do not compose
            }
            // a list corruption and a corruption of its first element conflict
            let (pi, pj) = (&singles[i].2, &singles[j].2);
            if pi.starts_with(pj) || pj.starts_with(pi) {
                continue;
            }
            out.push(Mutation {
                desc: format!("{} + {}", singles[i].1, singles[j].1),
                edits: vec![(singles[i].2.clone(), singles[i].3.clone()), (singles[j].2.clone(), singles[j].3.clone())],
                sections: vec![singles[i].4, singles[j].4],
            });
        }
    }
    out
}

fn apply_edits(base: &Value, edits: &[(Vec<String>, Value)]) -> Value {
    let mut v = base.clone();
    for (p, val) in edits {
        if let Some(slot) = get(&mut v, p) {
            *slot = val.clone();
        }
    }
    v
}

fn instantiate_grid(r: &mut Runner) {
    let mut n = 0u64;
    let mut acc = 0u64;
    let mut undeser = 0u64;
    let mut viols: V = vec![];
    let mut samples = vec![];
    for (k, base) in base_configs() {
        let fs = fields(true);
        let muts = mutations(&base, &fs, true);
        let res: Vec<(bool, bool, Option<(Violation, Value)>)> = muts
            .par_iter()
            .map(|m| {
                let v = apply_edits(&base, &m.edits);
                let Ok(msg) = serde_json::from_value::<InstantiateMsg>(v.clone()) else { return (false, true, None) };
                match World::new_with(&k, msg) {
                    Err(e) => {
                        if e.contains("panic") {
                            return (false, false, Some((viol("C14", "instantiate.panic", format!("{}: {e}", m.desc)), json!({"config": k.name, "mutation": m.desc}))));
                        }
                        (false, false, None)
                    }
                    Ok(w) => {
                        let cfg = w.config();
                        let probs = stored_problems(&cfg, &["native", "protocol", "fee", "monitors", "lst"]);
                        if !probs.is_empty() {
                            let key = format!("instantiate.accepted_malformed.{}", probs[0].split('|').next().unwrap_or(""));
                            return (true, false, Some((viol("C14", &key, format!("{} instantiate with [{}] accepted; stored config: {:?}", k.name, m.desc, probs)), json!({"config": k.name, "mutation": m.desc, "message": v}))));
                        }
                        if !cfg.stopped {
                            return (true, false, Some((viol("C14", "instantiate.not_stopped", "fresh instance is not halted".into()), json!({"config": k.name}))));
                        }
                        (true, false, None)
                    }
                }
            })
            .collect();
        for (i, (ok, und, v)) in res.into_iter().enumerate() {
            n += 1;
            acc += ok as u64;
            undeser += und as u64;
            if let Some(v) = v {
                viols.push(v);
            }
            if samples.len() < 3 && i % 997 == 3 {
                samples.push(json!({"config": k.name, "mutation": muts[i].desc, "accepted": ok}));
            }
        }
    }
    r.notes.push(format!("instantiate grid: {undeser} mutated messages were not deserialisable (rejected before the contract)"));
    r.grid("c14-instantiate-single-and-pair-corruptions", n, 2, acc, n - acc, samples, viols);
    r.require(acc >= 3 && n - acc > 1000, "C14 instantiate grid must contain accepted and refused configurations");
}

fn section_json(cfg: &staking::msg::ConfigResponse) -> Value {
    serde_json::to_value(cfg).unwrap()
}

fn update_grid(r: &mut Runner, thorough: bool) {
    let mut n = 0u64;
    let mut acc = 0u64;
    let mut viols: V = vec![];
    let mut samples = vec![];
    let secs: [&'static str; 5] = ["native", "protocol", "fee", "monitors", "batch_period"];
    for (k, base) in base_configs() {
        if k.name != "K0" && !thorough {
            continue;
        }
        let w_plain = World::new(&k).expect("instantiate");
        // a second base: the protocol section alone was replaced by one with another account prefix (sections
        // are validated on their own), so that stored treasury / oracle addresses no longer match it
        let mut w_moved = w_plain.clone();
        {
            let mut pc = base["protocol_chain_config"].clone();
            pc["account_address_prefix"] = json!("init");
            pc["oracle_address"] = Value::Null;
            if let Ok(msg) = serde_json::from_value::<ExecuteMsg>(json!({"update_config": {"protocol_chain_config": pc}})) {
                let _ = w_moved.exec(&p20("adm"), msg, &[]);
            }
        }
        let worlds = vec![("plain", w_plain.clone()), ("protocol_prefix_moved", w_moved)];
        // the update message is built from a (possibly different) valid configuration so that a
        // successful update really changes the supplied sections
        let mut src = base.clone();
        src["native_chain_config"]["unbonding_period"] = json!(777);
        src["native_chain_config"]["staker_address"] = json!(n20(&k, "staker2"));
        src["protocol_chain_config"]["minimum_liquid_stake_amount"] = json!("55");
        src["protocol_chain_config"]["ibc_channel_id"] = json!("channel-9");
        src["protocol_fee_config"]["dao_treasury_fee"] = json!("123");
        src["monitors"] = json!([p20("mon2"), p20("mon3")]);
        let fs = fields(true);
        let muts = mutations(&src, &fs, false);
        for (bname, w0) in worlds.iter() {
        let w0 = w0.clone();
        let before = w0.config();
        let before_json = section_json(&before);
        for subset in 0u32..32 {
            let supplied: Vec<&'static str> = secs.iter().enumerate().filter(|(i, _)| subset & (1 << i) != 0).map(|(_, s)| *s).collect();
            let relevant: Vec<&Mutation> = muts.iter().filter(|m| m.sections.iter().all(|s| supplied.contains(s))).collect();
            let res: Vec<(bool, Option<(Violation, Value)>)> = relevant
                .par_iter()
                .map(|m| {
                    let v = apply_edits(&src, &m.edits);
                    let pick = |name: &str, key: &str| -> Value { if supplied.contains(&name) { v[key].clone() } else { Value::Null } };
                    let msgv = json!({"update_config": {
                        "native_chain_config": pick("native", "native_chain_config"),
                        "protocol_chain_config": pick("protocol", "protocol_chain_config"),
                        "protocol_fee_config": pick("fee", "protocol_fee_config"),
                        "monitors": pick("monitors", "monitors"),
                        "batch_period": if supplied.contains(&"batch_period") { json!(4242) } else { Value::Null },
                    }});
                    let Ok(msg) = serde_json::from_value::<ExecuteMsg>(msgv.clone()) else { return (false, None) };
                    let mut w = w0.clone();
                    let out = w.exec(&p20("adm"), msg, &[]);
                    let case = json!({"config": k.name, "base": bname, "sections": supplied, "mutation": m.desc, "message": msgv});
                    if let Some(p) = &out.panicked {
                        return (false, Some((viol("C14", "update.panic", format!("{}: {p}", m.desc)), case)));
                    }
                    if !out.ok {
                        if w != w0 {
                            return (false, Some((viol("C14", "update.refusal_changed_state", m.desc.clone()), case)));
                        }
                        return (false, None);
                    }
                    let after = w.config();
                    let aj = section_json(&after);
                    let probs = stored_problems(&after, &supplied);
                    if !probs.is_empty() {
                        let key = format!("update.accepted_malformed.{}", probs[0].split('|').next().unwrap_or(""));
                        return (true, Some((viol("C14", &key, format!("UpdateConfig{:?} with [{}] accepted; stored config: {:?}", supplied, m.desc, probs)), case)));
                    }
                    for (name, key) in [("native", "native_chain_config"), ("protocol", "protocol_chain_config"), ("fee", "protocol_fee_config"), ("monitors", "monitors"), ("batch_period", "batch_period")] {
                        let changed = aj[key] != before_json[key];
                        if !supplied.contains(&name) && changed {
                            return (true, Some((viol("C14", "update.untouched_section_changed", format!("section {key} changed although not supplied ({:?})", supplied)), case)));
                        }
                        if supplied.contains(&name) && m.edits.is_empty() && !changed {
                            return (true, Some((viol("C14", "update.supplied_section_not_replaced", format!("section {key} supplied but unchanged")), case)));
                        }
                    }
                    // a supplied section is replaced by exactly the supplied values (prefixes normalised to lower case)
                    let upd = &msgv["update_config"];
                    for (name, key) in [("native", "native_chain_config"), ("protocol", "protocol_chain_config"), ("fee", "protocol_fee_config"), ("monitors", "monitors"), ("batch_period", "batch_period")] {
                        if !supplied.contains(&name) {
                            continue;
                        }
                        let mut want = upd[key].clone();
                        if let Some(o) = want.as_object_mut() {
                            for (k, v) in o.iter_mut() {
                                if k.ends_with("_prefix") {
                                    if let Some(sv) = v.as_str() {
                                        *v = json!(sv.to_lowercase());
                                    }
                                }
                            }
                        }
                        if aj[key] != want {
                            return (true, Some((viol("C14", "update.supplied_section_not_stored", format!("section {key} supplied as {} but stored as {}", want, aj[key])), case)));
                        }
                    }
                    if aj["liquid_stake_token_denom"] != before_json["liquid_stake_token_denom"] || aj["stopped"] != before_json["stopped"] {
                        return (true, Some((viol("C14", "update.lst_or_stopped_changed", format!("UpdateConfig changed LST denom or halted flag: {} / {}", aj["liquid_stake_token_denom"], aj["stopped"])), case)));
                    }
                    // nothing but the config key of the storage may change
                    let mut wk = w.clone();
                    wk.kv.m.insert(b"config".to_vec(), w0.kv.m[b"config".as_slice()].clone());
                    if wk != w0 {
                        return (true, Some((viol("C14", "update.touched_other_state", "UpdateConfig changed something besides the configuration".into()), case)));
                    }
                    (true, None)
                })
                .collect();
            for (i, (ok, v)) in res.into_iter().enumerate() {
                n += 1;
                acc += ok as u64;
                if let Some(v) = v {
                    viols.push(v);
                }
                if samples.len() < 3 && ok && i > 0 {
                    samples.push(json!({"config": k.name, "sections": supplied, "mutation": relevant[i].desc, "accepted": true}));
                }
            }
        }
        // the halted flag also survives updates on a running contract
        let mut w = w0.clone();
        assert!(w.exec(&p20("adm"), ExecuteMsg::ResumeContract { total_native_token: 0u128.into(), total_liquid_stake_token: 0u128.into(), total_reward_amount: 0u128.into() }, &[]).ok);
        let msg: ExecuteMsg = serde_json::from_value(json!({"update_config": {"native_chain_config": src["native_chain_config"], "protocol_chain_config": src["protocol_chain_config"], "protocol_fee_config": src["protocol_fee_config"], "monitors": src["monitors"], "batch_period": 5}})).unwrap();
        let out = w.exec(&p20("adm"), msg, &[]);
        n += 1;
        if !out.ok || w.config().stopped {
            if *bname == "plain" {
                viols.push((viol("C14", "update.running_flag", format!("full update on a running contract: ok={} stopped={}", out.ok, w.config().stopped)), json!({"config": k.name})));
            }
        }
        }
    }
    r.grid("c14-update-config-32-section-subsets-x-corruptions", n, 2, acc, n - acc, samples, viols);
    r.require(acc >= 32, "C14 update grid must contain accepted updates for every subset");
}

fn validator_grid(r: &mut Runner) {
    let k = K::k0();
    let vp = format!("{}valoper", k.native_prefix);
    let menu: Vec<String> = {
        let a = val(&k, "1");
        let mut bad = a.clone();
        let c = bad.pop().unwrap();
        bad.push(if c == 'q' { 'p' } else { 'q' });
        vec![a.clone(), val(&k, "2"), val(&k, "3"), val(&k, "4"), bech::addr(&k.native_prefix, "val-1", 20), bech::addr("osmovaloper", "val-1", 20), bad, a.to_uppercase(), String::new(), "garbage".into()]
    };
    let lists: Vec<Vec<String>> = vec![vec![], vec![val(&k, "1")], vec![val(&k, "1"), val(&k, "2")], vec![val(&k, "2"), val(&k, "1"), val(&k, "3")], vec![val(&k, "3")]];
    let mut n = 0u64;
    let mut acc = 0u64;
    let mut viols: V = vec![];
    for list in &lists {
        let mut im = instantiate_msg(&k);
        im.native_chain_config.validators = list.clone();
        let w0 = World::new_with(&k, im).expect("instantiate");
        for who in [p20("adm"), p20("x")] {
            for v in &menu {
                for add in [true, false] {
                    let mut w = w0.clone();
                    let msg = if add { ExecuteMsg::AddValidator { new_validator: v.clone() } } else { ExecuteMsg::RemoveValidator { validator: v.clone() } };
                    let out = w.exec(&who, msg, &[]);
                    n += 1;
                    let before: Vec<String> = w0.config().native_chain_config.validators.iter().map(|a| a.to_string()).collect();
                    let after: Vec<String> = w.config().native_chain_config.validators.iter().map(|a| a.to_string()).collect();
                    let case = json!({"list": list, "sender": who, "validator": v, "add": add});
                    let valid = addr_ok(v, &vp);
                    let present = before.contains(v);
                    if let Some(p) = &out.panicked {
                        viols.push((viol("C14", "validator.panic", p.clone()), case));
                        continue;
                    }
                    if out.ok {
                        acc += 1;
                        let mut want = before.clone();
                        if add {
                            want.push(v.clone());
                        } else {
                            want.retain(|x| x != v);
                        }
                        let mut a2 = after.clone();
                        let mut w2 = want.clone();
                        a2.sort();
                        w2.sort();
                        let legit = who == p20("adm") && valid && (add != present);
                        if !legit || a2 != w2 || !no_dups(&after) {
                            viols.push((
                                viol("C14", if add { "validator.add.wrong" } else { "validator.remove.wrong" }, format!("{} {v:?} by {who}: list {:?} -> {:?} (valid {valid}, present {present})", if add { "AddValidator" } else { "RemoveValidator" }, before, after)),
                                case,
                            ));
                            continue;
                        }
                        // nothing else in the configuration changes
                        let mut c1 = serde_json::to_value(w0.config()).unwrap();
                        let mut c2 = serde_json::to_value(w.config()).unwrap();
                        c1["native_chain_config"]["validators"] = json!([]);
                        c2["native_chain_config"]["validators"] = json!([]);
                        if c1 != c2 {
                            viols.push((viol("C14", "validator.changed_more", "validator change altered other configuration".into()), case));
                        }
                    } else {
                        if after != before {
                            viols.push((viol("C14", "validator.refusal_changed", "refused validator change altered the list".into()), case.clone()));
                        }
                        if who == p20("adm") && valid && (add != present) && !v.bytes().any(|b| b.is_ascii_uppercase()) {
                            viols.push((viol("C14", "validator.refused_wrongly", format!("{} {v:?} by admin refused: {:?}", if add { "AddValidator" } else { "RemoveValidator" }, out.err)), case));
                        }
                    }
                }
            }
        }
    }
    r.grid("c14-validator-add-remove", n, 2, acc, n - acc, vec![json!({"list": lists[2], "validator": menu[2], "add": true, "accepted": true})], viols);
    r.require(acc >= 10, "C14 validator grid must contain accepted changes");
}

pub fn run(thorough: bool) -> i32 {
    let mut r = Runner::new("C14", if thorough { "thorough" } else { "quick" });
    r.assumptions.push("well-formedness predicate written from the statement: lower-case HRPs (33..126, <=83), bech32-checksum-valid addresses under their section's prefix (upper-case spelling counts as the same bech32 string, DESIGN O8), channel ^channel-[0-9]{1,20}$ (ibc-go), denom ibc/+64, alphabetic sub-denoms".into());
    instantiate_grid(&mut r);
    update_grid(&mut r, thorough);
    validator_grid(&mut r);
    r.finish()
}

/// Accept / reject decisions of instantiation over every single and paired corruption of the base
/// configurations, as one digest: the two cargo-feature builds must agree on it (C19).
pub fn accept_reject_digest() -> Value {
    use sha2::{Digest, Sha256};
    let mut h = Sha256::new();
    let mut n = 0u64;
    let mut acc = 0u64;
    let mut accepted: Vec<String> = vec![];
    for (k, base) in base_configs() {
        let fs = fields(true);
        let muts = mutations(&base, &fs, true);
        let res: Vec<(String, bool)> = muts
            .par_iter()
            .map(|m| {
                let v = apply_edits(&base, &m.edits);
                let ok = match serde_json::from_value::<InstantiateMsg>(v) {
                    Ok(msg) => World::new_with(&k, msg).is_ok(),
                    Err(_) => false,
                };
                (format!("{}|{}", k.name, m.desc), ok)
            })
            .collect();
        for (d, ok) in res {
            n += 1;
            h.update(d.as_bytes());
            h.update([ok as u8]);
            if ok {
                acc += 1;
                if accepted.len() < 400 {
                    accepted.push(d);
                }
            }
        }
    }
    let digest: String = h.finalize().iter().map(|b| format!("{:02x}", b)).collect();
    json!({"scenario": "config-validation-accept-reject", "cases": n, "accepted": acc, "capped": false, "digest": digest, "accepted_cases": accepted})
}
