//! Exhaustive grids: C04 (exchange-rate arithmetic), C09 (ibc-hooks sender derivation),
//! C11 (fee arithmetic through execute).

use crate::acts::*;
use crate::common::Runner;
use crate::ledger;
use crate::probe_checks;
use cosmwasm_std::Uint128;
use mwsim::arith::{mul, mul_div};
use mwsim::bech;
use mwsim::explore::{viol, Limits, Violation};
use mwsim::monitors::step_monitors;
use mwsim::sim::*;
use mwsim::world::*;
use rayon::prelude::*;
use serde_json::{json, Value};
use staking::helpers::{compute_mint_amount, compute_unbond_amount, derive_intermediate_sender, validate_address};
use staking::msg::ExecuteMsg;
use staking::types::{UnsafeProtocolChainConfig, UnsafeProtocolFeeConfig};
use std::collections::BTreeSet;

type V = Vec<(Violation, Value)>;

// ============================================================================================ C04
fn c04_case(t: u128, l: u128, x: u128) -> (Option<(Violation, Value)>, u8) {
    let case = json!({"staked": t.to_string(), "lst": l.to_string(), "amount": x.to_string()});
    // ---- mint
    let want_mint = if t == 0 { Some(x) } else { mul_div(x, l, t) };
    let mut outcome = 0u8;
    if let Some(wm) = want_mint {
        let got = guarded(|| compute_mint_amount(Uint128::new(t), Uint128::new(l), Uint128::new(x)).u128());
        match got {
            Err(_) => return (Some((viol("C04", "grid.mint.panic", format!("compute_mint_amount({t},{l},{x}) panicked although the result {wm} is representable")), case)), 0),
            Ok(m) => {
                if m != wm {
                    return (Some((viol("C04", "grid.mint.formula", format!("compute_mint_amount({t},{l},{x}) = {m}, floor(x*L/T) = {wm}")), case)), 0);
                }
                if t > 0 && mul(x, l) < mul(t, m) {
                    return (Some((viol("C04", "grid.mint.dilution", format!("minting {m} for {x} at {t}/{l} lowers the redemption rate")), case)), 0);
                }
                if m > 0 {
                    outcome |= 1;
                }
                // round trip: unstake the freshly minted m immediately
                if (t > 0 && l > 0) || (t == 0 && l == 0) {
                    if let (Some(t2), Some(l2)) = (t.checked_add(x), l.checked_add(m)) {
                        if m > 0 {
                            if let Some(back) = mul_div(t2, m, l2) {
                                let got = guarded(|| compute_unbond_amount(Uint128::new(t2), Uint128::new(l2), Uint128::new(m)).u128());
                                match got {
                                    Ok(b) if b == back && b <= x => {
                                        if b < x {
                                            outcome |= 2;
                                        }
                                    }
                                    other => {
                                        return (
                                            Some((viol("C04", "grid.round_trip", format!("stake {x} at {t}/{l} mints {m}; unstaking it sets aside {:?} (floor formula {back}), paid in {x}", other.ok())), case)),
                                            0,
                                        )
                                    }
                                }
                            }
                        }
                    }
                }
            }
        }
    }
    // ---- unbond (x plays the role of the batch total b <= L)
    let b = x;
    if l > 0 && b <= l {
        if let Some(wu) = mul_div(t, b, l) {
            let got = guarded(|| compute_unbond_amount(Uint128::new(t), Uint128::new(l), Uint128::new(b)).u128());
            match got {
                Err(_) => return (Some((viol("C04", "grid.unbond.panic", format!("compute_unbond_amount({t},{l},{b}) panicked")), case)), 0),
                Ok(u) => {
                    if u != wu {
                        return (Some((viol("C04", "grid.unbond.formula", format!("compute_unbond_amount({t},{l},{b}) = {u}, floor(T*b/L) = {wu}")), case)), 0);
                    }
                    if mul(u, l) > mul(t, b) || u > t {
                        return (Some((viol("C04", "grid.unbond.dilution", format!("setting aside {u} for {b} LST at {t}/{l} lowers the redemption rate of the remaining holders")), case)), 0);
                    }
                    if u > 0 {
                        outcome |= 4;
                    }
                }
            }
        }
    } else if b == 0 {
        let got = guarded(|| compute_unbond_amount(Uint128::new(t), Uint128::new(l), Uint128::new(0)).u128());
        if got.ok() != Some(0) {
            return (Some((viol("C04", "grid.unbond.zero", format!("compute_unbond_amount({t},{l},0) != 0")), case)), 0);
        }
    }
    (None, outcome)
}

fn lattice() -> Vec<u128> {
    let mut v: Vec<u128> = vec![0, 1, 2, 3, 1_000_000_000_000_000_000_000_000_000, u128::MAX - 1, u128::MAX];
    let mut p: u128 = 1;
    for _ in 0..38 {
        p *= 10;
        v.push(p - 1);
        v.push(p);
        v.push(p + 1);
    }
    for k in [32u32, 64, 96, 127] {
        let q = 1u128 << k;
        v.push(q - 1);
        v.push(q);
        v.push(q + 1);
    }
    v.sort();
    v.dedup();
    v
}

fn c04_grids(r: &mut Runner, thorough: bool) {
    let n: u128 = if thorough { 160 } else { 48 };
    let res: Vec<(Vec<(Violation, Value)>, u64, [u64; 8])> = (0..=n)
        .into_par_iter()
        .map(|t| {
            let mut vs = vec![];
            let mut cnt = 0u64;
            let mut hist = [0u64; 8];
            for l in 0..=n {
                for x in 0..=n {
                    let (v, o) = c04_case(t, l, x);
                    cnt += 1;
                    hist[o as usize] += 1;
                    if let Some(v) = v {
                        if !vs.iter().any(|x: &(Violation, Value)| x.0.key == v.0.key) {
                            vs.push(v);
                        }
                    }
                }
            }
            (vs, cnt, hist)
        })
        .collect();
    let mut viols = vec![];
    let mut evals = 0;
    let mut hist = [0u64; 8];
    for (v, c, h) in res {
        viols.extend(v);
        evals += c;
        for i in 0..8 {
            hist[i] += h[i];
        }
    }
    let distinct = hist.iter().filter(|x| **x > 0).count() as u64;
    r.grid(&format!("c04-small-cube-0..{n}"), evals, distinct, hist[1..].iter().sum(), hist[0], vec![json!({"staked": 7, "lst": 5, "amount": 3, "mint": 2})], viols);
    r.require(hist.iter().filter(|x| **x > 0).count() >= 4, "C04 small cube produced fewer than 4 distinct outcome classes");

    let lat = lattice();
    let res: Vec<(Vec<(Violation, Value)>, u64, u64)> = lat
        .par_iter()
        .map(|t| {
            let mut vs = vec![];
            let mut cnt = 0u64;
            let mut repr = 0u64;
            for l in &lat {
                for x in &lat {
                    let (v, o) = c04_case(*t, *l, *x);
                    cnt += 1;
                    if o != 0 {
                        repr += 1;
                    }
                    if let Some(v) = v {
                        if !vs.iter().any(|x: &(Violation, Value)| x.0.key == v.0.key) {
                            vs.push(v);
                        }
                    }
                }
            }
            (vs, cnt, repr)
        })
        .collect();
    let mut viols = vec![];
    let mut evals = 0;
    let mut repr = 0;
    for (v, c, p) in res {
        viols.extend(v);
        evals += c;
        repr += p;
    }
    r.grid(&format!("c04-boundary-lattice-{}^3", lat.len()), evals, repr.min(evals), repr, evals - repr, vec![json!({"staked": lat[lat.len() - 1].to_string(), "lst": lat[lat.len() - 2].to_string(), "amount": "1"})], viols);

    // products next to word boundaries: for every lattice value a and boundary B the third operand is
    // B/a and its neighbours, in each of the three positions
    let thirds: Vec<u128> = vec![1, 2, 3, 7, 1_000_000, 1_000_000_007, 1 << 64, 1_000_000_000_000_000_000_000_000_000];
    let res: Vec<(Vec<(Violation, Value)>, u64, u64)> = lat
        .par_iter()
        .filter(|a| **a > 0)
        .map(|a| {
            let mut vs = vec![];
            let mut cnt = 0u64;
            let mut repr = 0u64;
            for b in [1u128 << 32, 1 << 64, 1 << 96, 1 << 127, u128::MAX] {
                let q = b / *a;
                for x in [q.saturating_sub(1), q, q.saturating_add(1)] {
                    for c in &thirds {
                        for (t, l, amt) in [(*c, *a, x), (*a, *c, x), (*c, x, *a), (x, *c, *a), (*a, x, *c), (x, *a, *c)] {
                            let (v, o) = c04_case(t, l, amt);
                            cnt += 1;
                            if o != 0 {
                                repr += 1;
                            }
                            if let Some(v) = v {
                                if !vs.iter().any(|x: &(Violation, Value)| x.0.key == v.0.key) {
                                    vs.push(v);
                                }
                            }
                        }
                    }
                }
            }
            (vs, cnt, repr)
        })
        .collect();
    let mut viols = vec![];
    let mut evals = 0;
    let mut repr = 0;
    for (v, c, p) in res {
        viols.extend(v);
        evals += c;
        repr += p;
    }
    r.grid("c04-products-next-to-word-boundaries", evals, repr.min(evals), repr, evals - repr, vec![json!({"staked": "3", "lst": "4294967296", "amount": "4294967297"})], viols);
}

/// (b) through execute: minimum, zero mint, expected_mint_amount in every seeded rate regime
fn c04_execute(r: &mut Runner) {
    let k = K::k0();
    let mut viols: V = vec![];
    let mut evals = 0u64;
    let mut acc = 0u64;
    let mut rej = 0u64;
    let mut samples = vec![];
    let tiny = {
        // staked 1, LST 1000: a stake of 10 mints 10000; staked 1000, LST 1: a stake of 10 mints 0
        vec![
            ("rate_0.001", Script::new(&k).run(resume(&adm(), 1, 1000, 0)).done()),
            ("rate_1000", Script::new(&k).run(resume(&adm(), 100_000, 100, 0)).done()),
        ]
    };
    let mut seeds = vec![("empty", seed_resumed(&k)), ("rate1", seed_two_stakes(&k)), ("rate_up", seed_rate_up(&k)), ("rate_down", seed_rate_down(&k)), ("sweep", seed_sweep(&k))];
    seeds.extend(tiny);
    for (name, s) in seeds {
        let st = s.w.state();
        let (mut n, l) = (st.total_native_token.u128(), st.total_liquid_stake_token.u128());
        if l == 0 {
            n = 0;
        }
        let min = k.min_stake;
        for amt in [1, min - 1, min, min + 1, 37, 100, 999] {
            let m = if n == 0 { Some(amt) } else { mul_div(amt, l, n) }.unwrap_or(0);
            let mut exps: Vec<Option<u128>> = vec![None, Some(m), Some(m + 1), Some(0)];
            if m > 0 {
                exps.push(Some(m - 1));
            }
            for e in exps {
                let a = stake_to(&u(1), amt, None, None, e);
                let mut t = s.clone();
                let ap = t.apply(&a);
                evals += 1;
                let should = amt >= min && m > 0 && e.map(|e| m >= e).unwrap_or(true);
                let case = json!({"seed": name, "amount": amt.to_string(), "expected_mint_amount": e.map(|x| x.to_string()), "computed_mint": m.to_string()});
                if ap.out.ok != should {
                    viols.push((
                        viol(
                            "C04",
                            if ap.out.ok { "execute.stake.accepted_wrongly" } else { "execute.stake.refused_wrongly" },
                            format!("{name}: stake {amt} (min {min}) mint {m} expected {:?}: ok={} err={:?}", e, ap.out.ok, ap.out.err),
                        ),
                        case.clone(),
                    ));
                }
                for v in step_monitors(&["C04"], &s, &a, &ap, &t) {
                    viols.push((v, case.clone()));
                }
                if ap.out.ok {
                    acc += 1;
                } else {
                    rej += 1;
                }
                if samples.len() < 3 {
                    samples.push(case);
                }
            }
        }
    }
    // a second coin next to the payment (sdk.Coins arrive sorted by denom: "factory/.." sorts before the
    // "ibc/.." staked asset, "uosmo" after it): whatever the contract decides, LST is minted for the staked
    // asset paid and for nothing else
    for (name, s) in [("rate1", seed_two_stakes(&k)), ("rate_up", seed_rate_up(&k)), ("empty", seed_resumed(&k))] {
        for extra in ["factory/osmo1aaaaaaaaaaaaaaaaaaaaaaaaaaaaaaaaaaaaaa/x", "uosmo", "ibc/0000000000000000000000000000000000000000000000000000000000000000"] {
            for (amt, big) in [(100u128, 1_000_000_000u128), (100, 1), (37, 36)] {
                let mut t = s.clone();
                t.w.credit(&u(1), extra, big);
                let pre = t.clone();
                let a = exec(&u(1), ExecuteMsg::LiquidStake { mint_to: None, transfer_to_native_chain: None, expected_mint_amount: None }, vec![(sd(), amt), (extra.to_string(), big)]);
                let ap = t.apply(&a);
                evals += 1;
                let case = json!({"seed": name, "amount": amt.to_string(), "extra_coin": [extra, big.to_string()]});
                for v in step_monitors(&["C04"], &pre, &a, &ap, &t) {
                    viols.push((v, case.clone()));
                }
                if ap.out.ok {
                    acc += 1;
                } else {
                    rej += 1;
                }
            }
        }
    }
    r.grid("c04-execute-min-zero-expected", evals, 2, acc, rej, samples, viols);
    r.require(acc > 10 && rej > 10, "C04 execute grid must contain accepted and refused stakes");
}

/// Execute-level lattice: for every (staked, LST) pair of a boundary lattice whose rate lies in the window
/// [1e-3, 1e3] the admin resumes a fresh contract with those totals; then, for every lattice amount, a user
/// stakes it, unstakes what was minted, and the batch is submitted. No call may panic (C16); the minted
/// and set-aside amounts obey the floor formulas and never lower the rate (C04).
pub fn resume_lattice(r: &mut Runner, prop: &'static str, thorough: bool) {
    let big = 1_000_000_000_000_000_000_000_000_000u128;
    let mut vals: Vec<u128> = if thorough {
        lattice().into_iter().filter(|v| *v >= 1 && *v <= big).collect()
    } else {
        let mut v: Vec<u128> = vec![1, 2, 3, 999, 1_000, 1_001, 1_000_000_007];
        for k in [32u32, 63, 64, 65, 80] {
            let q = 1u128 << k;
            v.extend([q - 1, q, q + 1, q + 2]);
        }
        for e in [9u32, 18, 19, 20, 24, 27] {
            let q = 10u128.pow(e);
            v.extend([q - 1, q]);
        }
        v.push(12_345_678_901_234_567_890_123);
        v.into_iter().filter(|v| *v <= big).collect()
    };
    vals.sort();
    vals.dedup();
    let k = K::k0();
    let base = seed_fresh(&k);
    let pairs: Vec<(u128, u128)> = vals
        .iter()
        .flat_map(|n| vals.iter().map(move |l| (*n, *l)))
        .filter(|(n, l)| *n <= l.saturating_mul(1000) && *l <= n.saturating_mul(1000))
        .collect();
    let res: Vec<(u64, u64, Vec<(Violation, Value)>)> = pairs
        .par_iter()
        .map(|(n, l)| {
            let mut cnt = 0u64;
            let mut okc = 0u64;
            let mut vs: Vec<(Violation, Value)> = vec![];
            let mut push = |v: Violation, case: &Value, vs: &mut Vec<(Violation, Value)>| {
                if !vs.iter().any(|x| x.0.key == v.key) {
                    vs.push((v, case.clone()));
                }
            };
            let mut s0 = base.clone();
            let ap = s0.apply(&resume(&adm(), *n, *l, 0));
            cnt += 1;
            let case0 = json!({"staked": n.to_string(), "lst": l.to_string()});
            if let Some(p) = &ap.out.panicked {
                push(viol(prop, &format!("lattice.panic.{}", crate::scen::panic_site(p)), format!("ResumeContract({n},{l},0) panicked: {p}")), &case0, &mut vs);
                return (cnt, okc, vs);
            }
            if !ap.out.ok {
                return (cnt, okc, vs);
            }
            // besides the lattice: amounts whose product with either total sits next to a word boundary
            let mut amounts: Vec<u128> = vals.clone();
            for b in [1u128 << 64, 1 << 96, 1 << 127, u128::MAX] {
                for t in [*n, *l] {
                    let q = b / t;
                    for d in [q.saturating_sub(1), q, q.saturating_add(1)] {
                        if d >= 1 && d <= big && !amounts.contains(&d) {
                            amounts.push(d);
                        }
                    }
                }
            }
            for x in &amounts {
                if *x < k.min_stake {
                    continue;
                }
                let case = json!({"staked": n.to_string(), "lst": l.to_string(), "amount": x.to_string()});
                let mut s = s0.clone();
                s.fund(&u(1), *x);
                let a = stake(&u(1), *x);
                let pre = s.clone();
                let ap = s.apply(&a);
                cnt += 1;
                if let Some(p) = &ap.out.panicked {
                    push(viol(prop, &format!("lattice.panic.{}", crate::scen::panic_site(p)), format!("LiquidStake({x}) at {n}/{l} panicked: {p}")), &case, &mut vs);
                    continue;
                }
                if prop == "C04" {
                    for v in step_monitors(&["C04"], &pre, &a, &ap, &s) {
                        push(v, &case, &mut vs);
                    }
                }
                if !ap.out.ok {
                    continue;
                }
                okc += 1;
                let minted = s.w.bal(&u(1), &s.w.lst_denom());
                if minted == 0 {
                    continue;
                }
                let a2 = unstake(&s, &u(1), minted);
                let ap2 = s.apply(&a2);
                cnt += 1;
                if let Some(p) = &ap2.out.panicked {
                    push(viol(prop, &format!("lattice.panic.{}", crate::scen::panic_site(p)), format!("LiquidUnstake({minted}) panicked: {p}")), &case, &mut vs);
                    continue;
                }
                let due = pending_due(&s);
                s.apply(&advance(due));
                let a3 = submit(&p20("x"));
                let pre3 = s.clone();
                let ap3 = s.apply(&a3);
                cnt += 1;
                if let Some(p) = &ap3.out.panicked {
                    push(viol(prop, &format!("lattice.panic.{}", crate::scen::panic_site(p)), format!("SubmitBatch of {minted} LST at {}/{} panicked: {p}", ap3.pre_state.total_native_token, ap3.pre_state.total_liquid_stake_token)), &case, &mut vs);
                    continue;
                }
                if prop == "C04" {
                    for v in step_monitors(&["C04"], &pre3, &a3, &ap3, &s) {
                        push(v, &case, &mut vs);
                    }
                }
                // the State / PendingBatch queries must answer as well
                for q in [staking::msg::QueryMsg::State {}, staking::msg::QueryMsg::PendingBatch {}] {
                    if let Err(e) = s.w.query_raw(q) {
                        if e.starts_with("PANIC") {
                            push(viol(prop, "lattice.panic.query", format!("query after submit panicked: {e}")), &case, &mut vs);
                        }
                    }
                }
            }
            (cnt, okc, vs)
        })
        .collect();
    let mut n = 0;
    let mut okc = 0;
    let mut viols = vec![];
    for (a, b, v) in res {
        n += a;
        okc += b;
        for x in v {
            if !viols.iter().any(|y: &(Violation, Value)| y.0.key == x.0.key) {
                viols.push(x);
            }
        }
    }
    r.grid(&format!("resume-stake-unstake-submit lattice: {} (staked,LST) pairs in the rate window x {} amounts", pairs.len(), vals.len()), n, 3, okc, n - okc, vec![json!({"staked": "18446744073709551615", "lst": "100000000000000000000", "amount": "18446744073709551615"})], viols);
    r.require(okc > 1000, "the execute-level lattice must contain accepted stakes");
}

pub fn run_c04(thorough: bool) -> i32 {
    let mut r = Runner::new("C04", if thorough { "thorough" } else { "quick" });
    c04_grids(&mut r, thorough);
    c04_execute(&mut r);
    resume_lattice(&mut r, "C04", thorough);
    // (c) history monitor on every Stake / Submit transition of the accounting and LST searches
    // (the history monitor rides on the quick-size searches in both tiers; the grids carry the thorough part)
    for mut p in ledger::plans("C03", false).into_iter().chain(ledger::plans("C01", false).into_iter().take(if thorough { 3 } else { 1 })) {
        p.sc.name = format!("c04-{}", p.sc.name);
        p.sc.props = vec!["C04"];
        let lim = Limits { max_depth: p.depth, max_states: 3_000_000, max_wall_s: if thorough { 1500.0 } else { 120.0 } };
        r.run_scenario(&p.sc, lim, &["SubmitBatch:ok", "LiquidStake:ok"]);
    }
    // ... and on the crowded batches (more than a hundred requesters in one batch) of the withdrawal search
    for mut p in ledger::plans("C05", false).into_iter().filter(|p| p.sc.name.ends_with("+deep")) {
        p.sc.seeds.retain(|(n, _)| n.ends_with("many_requesters") || n.ends_with("crowd"));
        p.sc.name = format!("c04-{}", p.sc.name);
        p.sc.props = vec!["C04"];
        let lim = Limits { max_depth: p.depth, max_states: 3_000_000, max_wall_s: 120.0 };
        r.run_scenario(&p.sc, lim, &["SubmitBatch:ok"]);
    }
    r.finish()
}

// ============================================================================================ C09
fn sender_menu() -> Vec<String> {
    let mut v = vec![];
    for hrp in ["celestia", "osmo", "init", "a", "cosmos"] {
        v.push(bech::addr(hrp, "s-one", 20));
        v.push(bech::addr(hrp, "s-two", 20));
        v.push(bech::addr(hrp, "s-one", 32));
    }
    v.push(bech::addr("celestia", "s-one", 20).to_uppercase());
    // very long but checksum-valid addresses: "<channel>/<sender>" beyond 256 and beyond 1024 bytes
    // addresses of chains that use the bech32m checksum
    for label in ["m-one", "m-two"] {
        let d = bech::decode(&bech::addr("celestia", label, 20)).unwrap();
        v.push(bech::encode_const("celestia", &d.payload, bech::BECH32M_CONST));
    }
    v.push(bech::addr("celestia", "s-long", 200));
    v.push(bech::addr("celestia", "s-long-b", 200));
    v.push(bech::addr("celestia", "s-huge", 700));
    v.push("celestia1abc/def".into());
    v.push("/".into());
    v.push("a/b/c".into());
    v.push(String::new());
    v.push("channel-0".into());
    v.push("celestia1sfhy3emrgp26wnzuu64p06kpkxd9phel8ym0ge".into());
    v.push("0/celestia1x".into());
    v.push("1".into());
    v
}

fn channel_menu() -> Vec<String> {
    let mut v: Vec<String> = vec![
        "channel-0", "channel-1", "channel-42", "channel-18446744073709551615", "channel-18446744073709551616", "channel-", "channel", "channel-x", "channel-1x", "channel--1", "channel-+1", "Channel-1",
        " channel-1", "channel-1 ", "channel-01", "channel-1/", "channel-1/celestia1", "channel-10", "channel-100", "channel-0/", "", "channel-00", "channel-4 2", "channel-٣", "channel-1\n",
        "channel-0x1", "channel-1e3", "channel-1_000", "CHANNEL-1", "channel-007", "channel-9223372036854775808", "transfer/channel-1", "channel-1.0", "channel-١", "channel-2", "channel-3", "channel-12",
        "channel-21", "channel-99999999999999999999", "channel-1-1",
    ]
    .into_iter()
    .map(|s| s.to_string())
    .collect();
    v.sort();
    v.dedup();
    v
}

fn proto_cfg(channel: &str, prefix: &str) -> UnsafeProtocolChainConfig {
    UnsafeProtocolChainConfig {
        account_address_prefix: prefix.into(),
        ibc_token_denom: staked_denom(),
        ibc_channel_id: channel.into(),
        minimum_liquid_stake_amount: Uint128::new(10),
        oracle_address: None,
    }
}

pub fn run_c09(thorough: bool) -> i32 {
    let mut r = Runner::new("C09", if thorough { "thorough" } else { "quick" });
    // (1) derivation equals the hand-written one on the complete product
    let channels = ["channel-0", "channel-1", "channel-42", "channel-18446744073709551615"];
    let long = "b".repeat(83);
    let prefixes = ["osmo", "celestia", "init", "a", long.as_str()];
    let senders = sender_menu();
    let mut viols: V = vec![];
    let mut evals = 0u64;
    let mut outs: BTreeSet<String> = BTreeSet::new();
    for c in channels {
        for s in &senders {
            for p in prefixes {
                evals += 1;
                let got = guarded(|| derive_intermediate_sender(c, s, p));
                let want = bech::hook_sender(c, s, p);
                let case = json!({"channel": c, "sender": s, "prefix": p});
                match got {
                    Ok(Ok(g)) if g == want => {
                        outs.insert(g);
                    }
                    other => viols.push((viol("C09", "derive.mismatch", format!("derive({c},{s},{p}) = {:?}, ibc-hooks derivation gives {want}", other)), case)),
                }
            }
        }
    }
    r.grid("c09-derivation-product", evals, outs.len() as u64, evals, 0, vec![json!({"channel": "channel-0", "sender": "celestia1sfhy3emrgp26wnzuu64p06kpkxd9phel8ym0ge", "prefix": "osmo", "account": bech::HOOK_KAT})], viols);
    r.require(bech::hook_sender("channel-0", "celestia1sfhy3emrgp26wnzuu64p06kpkxd9phel8ym0ge", "osmo") == bech::HOOK_KAT, "python-computed known answer");

    // (2) injectivity over everything configuration validation accepts
    let mut acc_channels: Vec<String> = vec![];
    let mut viols: V = vec![];
    for c in channel_menu() {
        if proto_cfg(&c, "osmo").validate().is_ok() {
            // what ibc-go accepts as channel identifier: ^channel-[0-9]{1,20}$ ... and nothing containing '/'
            if c.contains('/') {
                viols.push((viol("C09", "inject.channel_with_slash", format!("configuration validation accepts channel {c:?} containing '/'")), json!({"channel": c})));
            }
            acc_channels.push(c);
        }
    }
    let mut acc_senders: Vec<String> = vec![];
    for hrp in ["celestia", "osmo", "init"] {
        for s in sender_menu() {
            if validate_address(&s, hrp).is_ok() {
                acc_senders.push(s);
            }
        }
        for i in 0..(if thorough { 60 } else { 20 }) {
            acc_senders.push(bech::addr(hrp, &format!("inj-{i}"), 20));
        }
    }
    acc_senders.sort();
    acc_senders.dedup();
    for s in &acc_senders {
        if s.contains('/') {
            viols.push((viol("C09", "inject.sender_with_slash", format!("address validation accepts {s:?} containing '/'")), json!({"sender": s})));
        }
    }
    let mut seen: std::collections::BTreeMap<String, (String, String)> = Default::default();
    let mut evals = 0u64;
    for c in &acc_channels {
        for s in &acc_senders {
            evals += 1;
            let acct = derive_intermediate_sender(c, s, "osmo").unwrap_or_default();
            if let Some((c0, s0)) = seen.insert(acct.clone(), (c.clone(), s.clone())) {
                viols.push((
                    viol("C09", "inject.collision", format!("({c0},{s0}) and ({c},{s}) both map to {acct}")),
                    json!({"a": [c0, s0], "b": [c, s]}),
                ));
            }
        }
    }
    let pairs = evals * evals.saturating_sub(1) / 2;
    r.grid("c09-injectivity-accepted-pairs", evals, seen.len() as u64, acc_channels.len() as u64, (channel_menu().len() - acc_channels.len()) as u64, vec![json!({"accepted_channels": acc_channels, "accepted_senders": acc_senders.len(), "ordered_pairs_compared": pairs})], viols);
    r.require(acc_channels.len() >= 6 && acc_senders.len() >= 20, "C09 injectivity grid needs accepted channels and senders");

    // (2b) the contract's own sender check under every spelling of channel and native addresses that
    //      UpdateConfig accepts: exactly the account derived from the strings as configured is accepted
    c09_execute_grid(&mut r);

    // (3) end to end: every Rewards / Deliver of the search goes through the simulator's own ibc-hooks;
    //     after updates of channel / staker / collector the newly derived account is accepted, the old refused
    for p in probe_checks::plans("C08", thorough) {
        let mut sc = p.sc;
        sc.name = format!("c09-{}", sc.name);
        sc.probe = Some(Box::new(|s| {
            let mut o = crate::probes::auth_probe(s);
            for v in o.violations.iter_mut() {
                if v.property == "C08" && (v.key.contains("ReceiveRewards") || v.key.contains("ReceiveUnstakedTokens")) {
                    v.property = "C09".into();
                }
            }
            o
        }));
        let lim = Limits { max_depth: p.depth, max_states: 3_000_000, max_wall_s: 600.0 };
        r.run_scenario(&sc, lim, &["c09:new_staker_hook_accepted_old_refused", "c09:new_reward_hook_accepted_old_refused", "c09:new_channel_hook_accepted_old_refused", "HookReceiveRewards:ok", "HookReceiveUnstakedTokens:ok"]);
    }
    r.finish()
}

/// For every accepted spelling (lower / upper case, 20 / 32 bytes) of the staker and collector addresses and
/// every accepted channel spelling, configure them through UpdateConfig and call ReceiveRewards /
/// ReceiveUnstakedTokens from the accounts derived, independently, from each spelling variant. Only the
/// account of the strings as configured may pass the sender check.
fn c09_execute_grid(r: &mut Runner) {
    let k = K::k0();
    let Some(base) = try_seed(|| seed_submitted(&k)) else {
        r.notes.push("the submitted-batch seed cannot be built on this tree: the C09 execute grid is skipped (the other parts still run)".into());
        return;
    };
    let due = base.m.batches.values().find(|b| b.status == MStatus::Submitted).map(|b| (b.id, b.due, b.expected.unwrap_or(1)));
    let Some((bid, bdue, bexp)) = due else {
        r.require(false, "C09 execute grid needs a submitted batch");
        return;
    };
    let addr_spellings = |label: &str| -> Vec<String> {
        let a20 = bech::addr(&k.native_prefix, label, 20);
        let a32 = bech::addr(&k.native_prefix, label, 32);
        // 200-byte payloads: the hashed string "<channel>/<address>" is longer than 256 bytes
        let m20 = bech::encode_const(&k.native_prefix, &bech::decode(&a20).unwrap().payload, bech::BECH32M_CONST);
        vec![a20.clone(), a20.to_uppercase(), a32.clone(), a32.to_uppercase(), bech::addr(&k.native_prefix, label, 200), bech::addr(&k.native_prefix, &format!("{label}-twin"), 200), m20]
    };
    let channels = ["channel-0", "channel-7", "channel-007", "channel-42", "channel-18446744073709551615"];
    let mut n = 0u64;
    let mut acc = 0u64;
    let mut viols: V = vec![];
    let im = instantiate_msg(&k);
    // the protocol prefix is configuration too: "init" while the contract's own address (and the simulated
    // chain) say "osmo" — the statement names the configured prefix
    for (ch, prefix) in channels.iter().map(|c| (*c, PROTO_PREFIX)).chain([("channel-0", "init"), ("channel-42", "init")]) {
        for st in addr_spellings("c09-staker") {
            for co in addr_spellings("c09-collector") {
                if prefix != PROTO_PREFIX && (st.len() > 70 || co.len() > 70) {
                    continue;
                }
                let mut s = base.clone();
                let mut nc = im.native_chain_config.clone();
                nc.staker_address = st.clone();
                nc.reward_collector_address = co.clone();
                let mut pc = im.protocol_chain_config.clone();
                pc.ibc_channel_id = ch.to_string();
                if prefix != PROTO_PREFIX {
                    pc.account_address_prefix = prefix.to_string();
                    pc.oracle_address = None;
                }
                let ap = s.apply(&exec(&adm(), ExecuteMsg::UpdateConfig { native_chain_config: Some(nc), protocol_chain_config: Some(pc), protocol_fee_config: None, monitors: None, batch_period: None }, vec![]));
                n += 1;
                if !ap.out.ok {
                    continue;
                }
                s.apply(&advance(bdue.max(s.w.time + 1)));
                let cfg = s.w.config();
                // what the configuration now says, verbatim
                let (cst, cco, cch) = (cfg.native_chain_config.staker_address.to_string(), cfg.native_chain_config.reward_collector_address.to_string(), cfg.protocol_chain_config.ibc_channel_id.clone());
                let variants = |a: &str| -> Vec<String> {
                    let mut v = vec![a.to_string(), a.to_lowercase(), a.to_uppercase()];
                    v.sort();
                    v.dedup();
                    v
                };
                let chans: Vec<String> = {
                    let num = cch.trim_start_matches("channel-").trim_start_matches('0');
                    let mut v = vec![cch.clone(), format!("channel-{}", if num.is_empty() { "0" } else { num }), format!("channel-0{}", cch.trim_start_matches("channel-")), "channel-77".to_string()];
                    v.sort();
                    v.dedup();
                    v
                };
                for (label, configured, msg, funds) in [
                    ("ReceiveUnstakedTokens", cst.clone(), ExecuteMsg::ReceiveUnstakedTokens { batch_id: bid }, vec![(sd(), bexp)]),
                    ("ReceiveRewards", cco.clone(), ExecuteMsg::ReceiveRewards {}, vec![(sd(), 50u128)]),
                ] {
                    let cpre = cfg.protocol_chain_config.account_address_prefix.clone();
                    let exact = bech::hook_sender(&cch, &configured, &cpre);
                    for c2 in &chans {
                        for (a2, p2) in variants(&configured).into_iter().flat_map(|a| [(a.clone(), cpre.clone()), (a, if cpre == "osmo" { "init".to_string() } else { "osmo".to_string() })]) {
                            let acct = bech::hook_sender(c2, &a2, &p2);
                            let mut w = s.w.clone();
                            for (d, a) in &funds {
                                w.credit(&acct, d, *a);
                            }
                            let out = w.exec(&acct, msg.clone(), &funds);
                            n += 1;
                            let case = json!({"configured_channel": cch, "configured_address": configured, "sender_channel": c2, "sender_address": a2, "message": label});
                            let refused_as_unauthorised = out.err.as_deref().map(|e| e.contains("Unauthorized")).unwrap_or(false);
                            if acct == exact {
                                if out.ok {
                                    acc += 1;
                                } else if refused_as_unauthorised {
                                    viols.push((viol("C09", &format!("execute.refused_configured_pair.{label}"), format!("{label} from the ibc-hooks account of ({cch}, {configured}) as configured was refused: {:?}", out.err)), case));
                                }
                            } else if out.ok {
                                viols.push((viol("C09", &format!("execute.accepted_other_pair.{label}"), format!("{label} accepted from the account of ({c2}, {a2}) while ({cch}, {configured}) is configured")), case));
                            }
                        }
                    }
                }
            }
        }
    }
    r.grid("c09-execute: accepted spellings of channel x staker x collector, sender accounts of every spelling variant", n, 2, acc, n - acc, vec![json!({"configured_channel": "channel-007", "configured_address": "CELESTIA1...", "sender_channel": "channel-7"})], viols);
    r.require(acc >= 40, "the C09 execute grid must see accepted deliveries");
}

// ============================================================================================ C11
pub fn run_c11_grid(r: &mut Runner, thorough: bool) {
    let rewards_menu: Vec<u128> = vec![
        1, 9, 10, 11, 99, 100, 101, 12_345, 1_000_007, 1_000_000_000_000_000_001,
        // between 2^64 and 2^96, not multiples of the fee denominator
        18_446_744_073_709_551_615, 18_446_744_073_709_551_617, 25_000_000_000_000_054_321, (1 << 70) + 7, (1 << 96) - 12_345,
        999_999_999_999_999_999_999_999_999, 1_000_000_000_000_000_000_000_000_000,
    ];
    let rates: Vec<u128> = vec![0, 1, 2_500, 5_000, 9_999, 10_000, 33_333, 99_999, 100_000, 100_001, 150_000, 1_000_000];
    let k = K::k4();
    let big_seed = |k: &K| -> Sim {
        // totals large enough that a reward of 10^27 keeps the exchange rate inside [1e-3, 1e3]
        Script::new(k).run(resume(&adm(), 10u128.pow(25), 10u128.pow(25), 0)).done()
    };
    // a configuration whose protocol-chain section was replaced after the treasury was set (UpdateConfig does
    // not look at the other sections): the prefix the contract believes in is no longer the treasury's
    let move_prefix = |s: &mut Sim| -> bool {
        let mut pc = instantiate_msg(&k).protocol_chain_config;
        pc.account_address_prefix = "init".into();
        pc.oracle_address = None;
        s.apply(&exec(&adm(), ExecuteMsg::UpdateConfig { native_chain_config: None, protocol_chain_config: Some(pc), protocol_fee_config: None, monitors: None, batch_period: None }, vec![])).out.ok
    };
    let mut seeds = vec![("lst_positive", seed_two_stakes(&k)), ("lst_zero", seed_resumed(&k)), ("big_totals", big_seed(&k)), ("protocol_prefix_moved", seed_two_stakes(&k))];
    // both chains use one address prefix (an Initia L1 / rollup pair): the same string may be configured as
    // native staker and as protocol treasury — two different accounts on two chains
    if let Some(s) = try_seed(|| seed_two_stakes(&K::k2())) {
        seeds.push(("shared_prefix_treasury_is_staker", s));
    }
    if thorough {
        seeds.push(("rate_up", seed_rate_up(&k)));
        seeds.push(("rate_down", seed_rate_down(&k)));
    }
    let mut viols: V = vec![];
    let mut evals = 0u64;
    let mut acc = 0u64;
    let mut rej = 0u64;
    let mut samples = vec![];
    let mut outcomes: BTreeSet<String> = BTreeSet::new();
    for (name, s0) in &seeds {
        for rate in &rates {
            let mut treasuries = vec![None, Some(p20("tre"))];
            if *name == "shared_prefix_treasury_is_staker" {
                treasuries = vec![Some(n20(&K::k2(), "staker")), Some(n20(&K::k2(), "collector"))];
            }
            for tre in treasuries {
                let mut s = s0.clone();
                let ap = s.apply(&exec(
                    &adm(),
                    ExecuteMsg::UpdateConfig {
                        native_chain_config: None,
                        protocol_chain_config: None,
                        protocol_fee_config: Some(UnsafeProtocolFeeConfig { dao_treasury_fee: Uint128::new(*rate), treasury_address: tre.clone() }),
                        monitors: None,
                        batch_period: None,
                    },
                    vec![],
                ));
                assert!(ap.out.ok, "fee config update failed: {:?}", ap.out.err);
                if *name == "protocol_prefix_moved" && !move_prefix(&mut s) {
                    continue;
                }
                let st = s.w.state();
                // rewards chosen from the rate: those whose product with the fee rate sits on either side of
                // a machine-word boundary (a fast path, a narrowing cast or an intermediate overflow would
                // change behaviour exactly there), besides the fixed menu
                let mut rewards_here = rewards_menu.clone();
                if *rate > 0 {
                    for b in [1u128 << 32, 1 << 53, 1 << 63, 1 << 64, 1 << 96, 1 << 127, u128::MAX] {
                        let q = b / *rate;
                        for d in [q.saturating_sub(1), q, q.saturating_add(1), q.saturating_add(q / 8)] {
                            if d >= 1 && d <= 1_000_000_000_000_000_000_000_000_000 && !rewards_here.contains(&d) {
                                rewards_here.push(d);
                            }
                        }
                    }
                }
                for reward in &rewards_here {
                    // stay inside the exchange-rate window of C16 (the reward is added to the staked total)
                    let (n, l) = (st.total_native_token.u128(), st.total_liquid_stake_token.u128());
                    if l > 0 && n + reward > l.saturating_mul(1000) {
                        continue;
                    }
                    let cfg_now = s.w.config();
                    // the account the contract itself derives for the collector under its current configuration
                    let direct = bech::hook_sender(&cfg_now.protocol_chain_config.ibc_channel_id, cfg_now.native_chain_config.reward_collector_address.as_str(), &cfg_now.protocol_chain_config.account_address_prefix);
                    let moved = *name == "protocol_prefix_moved";
                    for who in ["collector", "collector_direct", "staker", "user"] {
                        if moved != (who == "collector_direct") && (moved || who == "collector_direct") && !(who == "collector_direct" && !moved && rate % 2_500 == 0) {
                            continue;
                        }
                        let a = match who {
                            "collector_direct" => exec(&direct, ExecuteMsg::ReceiveRewards {}, vec![(sd(), *reward)]),
                            "collector" => rewards(&s, *reward),
                            "staker" => rewards_from(&n20(&k, "staker"), *reward),
                            _ => {
                                let mut t = exec(&u(1), ExecuteMsg::ReceiveRewards {}, vec![(sd(), *reward)]);
                                if let Act::Exec { .. } = &mut t {}
                                t
                            }
                        };
                        let mut t = s.clone();
                        if who == "user" {
                            t.fund(&u(1), *reward);
                        }
                        if who == "collector_direct" {
                            t.fund(&direct, *reward);
                        }
                        let pre = t.clone();
                        let ap = t.apply(&a);
                        evals += 1;
                        let fee = mul_div(*rate, *reward, 100_000).unwrap_or(u128::MAX);
                        let should = (who == "collector" || who == "collector_direct") && l > 0 && fee <= *reward;
                        let case = json!({"seed": name, "reward": reward.to_string(), "fee_rate": rate.to_string(), "treasury": tre, "sender": who, "fee": fee.to_string()});
                        // fee == reward leaves nothing to restake; an ICS-20 transfer of zero cannot be sent, so
                        // the chain refuses the whole reward. The statement does not say such a reward must be
                        // accepted: only the refusal direction is judged there (DESIGN O15).
                        let undecided = (who == "collector" || who == "collector_direct") && l > 0 && fee == *reward;
                        if ap.out.ok != should && !(undecided && !ap.out.ok) {
                            viols.push((
                                viol("C11", if ap.out.ok { "grid.reward.accepted_wrongly" } else { "grid.reward.refused_wrongly" }, format!("{name}: reward {reward} rate {rate} treasury {:?} from {who}: ok={} err={:?} (fee {fee})", tre, ap.out.ok, ap.out.err)),
                                case.clone(),
                            ));
                        }
                        if let Some(p) = &ap.out.panicked {
                            viols.push((viol("C11", "grid.reward.panic", format!("reward {reward} rate {rate}: {p}")), case.clone()));
                        }
                        for v in step_monitors(&["C11"], &pre, &a, &ap, &t) {
                            viols.push((v, case.clone()));
                        }
                        if ap.out.ok {
                            acc += 1;
                            outcomes.insert(format!("ok:fee{}:tre{}", (fee > 0) as u8, tre.is_some() as u8));
                        } else {
                            rej += 1;
                            outcomes.insert(format!("refused:{}", ap.out.err.clone().unwrap_or_default().chars().take(24).collect::<String>()));
                        }
                        if samples.len() < 3 && ap.out.ok {
                            samples.push(case);
                        }
                    }
                }
            }
        }
    }
    r.grid("c11-reward-x-rate-x-treasury-x-sender", evals, outcomes.len() as u64, acc, rej, samples, viols);
    r.require(acc > 50 && rej > 50, "C11 grid must contain accepted and refused rewards");
}

pub fn run_c11(thorough: bool) -> i32 {
    let mut r = Runner::new("C11", if thorough { "thorough" } else { "quick" });
    run_c11_grid(&mut r, thorough);
    for p in ledger::plans("C11", thorough) {
        let lim = Limits { max_depth: p.depth, max_states: 3_000_000, max_wall_s: if thorough { 1500.0 } else { 120.0 } };
        r.run_scenario(&p.sc, lim, &p.required);
    }
    r.finish()
}
