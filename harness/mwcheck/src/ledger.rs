//! History properties decided by exhaustive exploration of the staking contract inside the chain
//! simulator: C01, C02, C03, C05, C06, C07, C11 (history part), C15.

use crate::acts::*;
use crate::common::Runner;
use crate::menu::*;
use crate::scen::*;
use cosmwasm_std::Uint128;
use mwsim::explore::Limits;
use mwsim::sim::*;
use mwsim::world::*;
use staking::msg::{ExecuteMsg, IBCLifecycleComplete, SudoMsg};
use staking::types::UnsafeProtocolFeeConfig;

pub struct Plan {
    pub sc: StakingScenario,
    pub depth: usize,
    pub required: Vec<&'static str>,
}

fn mk(name: &str, props: Vec<&'static str>, seeds: Vec<(String, Sim)>, menu: Menu) -> StakingScenario {
    StakingScenario { name: name.to_string(), props, seeds, menu, probe: None, goal: None, extra_step: None, dev_cost: std_dev, panics_are: None }
}

fn named(k: &K, v: Vec<(&str, Option<Sim>)>) -> Vec<(String, Sim)> {
    v.into_iter().filter_map(|(n, s)| s.map(|s| (format!("{}/{}", k.name, n), s))).collect()
}

fn small_funds(f: impl FnOnce() -> Sim, keep: u128) -> Option<Sim> {
    try_seed(f).map(|s| small_funds_of(s, keep))
}

fn small_funds_of(mut s: Sim, keep: u128) -> Sim {
    // trim user balances so that the number of stakes along a path is naturally bounded
    let sdn = sd();
    for i in 1..=3u8 {
        let a = u(i);
        let b = s.w.bal(&a, &sdn);
        if b > keep {
            s.w.bank.insert((a.clone(), sdn.clone()), keep);
            s.g.endowment -= b - keep;
        }
    }
    s
}

fn cfgs(thorough: bool) -> Vec<K> {
    if thorough {
        vec![K::k0(), K::k1(), K::k2(), K::k4()]
    } else {
        vec![K::k0(), K::k1(), K::k2()]
    }
}

/// remove the oracle from a world: configuration (through the contract's own storage types) and the
/// simulator's record of what the oracle received
fn strip_oracle(s: &mut Sim) {
    if let Ok(mut c) = staking::state::CONFIG.load(&s.w.kv) {
        c.protocol_chain_config.oracle_address = None;
        let _ = staking::state::CONFIG.save(&mut s.w.kv, &c);
    }
    s.w.oracle_last = None;
    s.w.oracle_count = 0;
    s.w.k.oracle = false;
}

// ---------------------------------------------------------------- C01 / C15: accounting search
fn acct_plans(prop: &'static str, thorough: bool) -> Vec<Plan> {
    let mut out = Vec::new();
    for k in cfgs(thorough) {
        if prop == "C15" && ((!k.oracle && k.name != "K1") || (!thorough && k.name == "K2")) {
            continue;
        }
        let seeds = named(
            &k,
            vec![
                ("fresh", small_funds(|| seed_fresh(&k), 250)),
                ("resumed", small_funds(|| seed_resumed(&k), 250)),
                ("two_stakes", small_funds(|| seed_two_stakes(&k), 250)),
                ("rate_up", small_funds(|| seed_rate_up(&k), 250)),
                ("rate_down", small_funds(|| seed_rate_down(&k), 250)),
                ("queued", small_funds(|| seed_queued(&k), 250)),
                ("submitted", small_funds(|| seed_submitted(&k), 250)),
                ("full_exit", small_funds(|| seed_full_exit(&k), 250)),
                ("sweep", small_funds(|| seed_sweep(&k), 250)),
                ("ten_batches", small_funds(|| seed_ten_batches(&k), 250)),
                ("mixed_refundable", small_funds(|| seed_mixed_refundable(&k, seed_received(&k), false), 250)),
                ("mid_amounts", small_funds(|| seed_mid_amounts(&k), 250)),
                ("many_rewards", small_funds(|| seed_many_rewards(&k), 250)),
                // two refundable staked-asset transfers while the contract also holds a received batch
                ("received_refundable2", small_funds(
                    || {
                        let mut s = seed_received(&k);
                        for kind in [1u8, 2] {
                            let ap = s.apply(&hold(stake(&u(1), 20 + kind as u128)));
                            let seq = ap.out.new_packets[0];
                            s.apply(&Act::Outcome { seq, kind });
                        }
                        s
                    },
                    250,
                )),
            ],
        );
        let mut o = MenuOpt::base();
        o.stake_native = true;
        o.halt_resume = true;
        o.slashed_resume = true;
        o.deliver = vec![Rel::Exact, Rel::Minus1, Rel::Plus5];
        o.max_dev = if thorough { 2 } else { 1 };
        o.ibc_down = true;
        o.recover_paginated = thorough;
        o.recover_receivers = vec![Some(n20(&k, "n1"))];
        o.stake_to_staker = true;
        o.recover_forced = true;
        o.reply_faults = true;
        o.oracle_faults = prop == "C15";
        if prop == "C15" {
            // a dust request: at a rate below one its share of the staked total rounds to zero
            o.unstake = vec![Frac::All, Frac::Third, Frac::Fixed(1)];
        }
        let mut sc = mk(&format!("acct-{}-{}", prop, k.name), vec![prop], seeds, Box::new(move |s| std_menu(s, &o)));
        sc.goal = Some(Box::new(|pre, a, ap, post| {
            let mut g = vec![];
            if ap.out.ok {
                if let Act::Exec { msg: ExecuteMsg::RecoverPendingIbcTransfers { .. }, .. } = a {
                    g.push("refund_resent".to_string());
                }
                if let Act::Exec { msg: ExecuteMsg::LiquidStake { .. }, .. } = a {
                    if pre.w.state().total_liquid_stake_token.is_zero() {
                        g.push("first_stake_into_empty_pool".to_string());
                    }
                    if post.g.swept > pre.g.swept {
                        g.push("ownerless_stake_swept".to_string());
                    }
                }
                if let Act::Exec { msg: ExecuteMsg::Withdraw { .. }, .. } = a {
                    g.push("withdrawn".to_string());
                }
            }
            g
        }));
        if prop == "C15" && k.oracle {
            // oracle-less twin in lock-step: the same action on the same world with the oracle address
            // removed must succeed / fail alike, have identical effects, and post nothing
            sc.extra_step = Some(Box::new(|pre, a, ap, post| {
                let mut v = vec![];
                if pre.w.ibc.reply_fault == 3 || matches!(a, Act::ReplyFault { .. }) {
                    // a rejecting oracle: the transaction that has to post fails as a whole (the statement asks
                    // for the post, not for progress without it); there is nothing to compare with the twin.
                    // What must not happen is judged by the step monitor: totals changed and nothing posted.
                    return v;
                }
                let mut t = pre.clone();
                strip_oracle(&mut t);
                let apt = t.apply(a);
                let mut want = post.clone();
                strip_oracle(&mut want);
                strip_oracle(&mut t);
                let no_oracle = |evs: &Vec<Ev>| -> Vec<Ev> { evs.iter().filter(|e| !matches!(e, Ev::Oracle { .. })).cloned().collect() };
                if apt.out.events.iter().any(|e| matches!(e, Ev::Oracle { .. })) {
                    v.push(mwsim::explore::viol("C15", "twin.posted_without_oracle", format!("{} posted to an oracle although none is configured", act_label(a))));
                }
                if apt.out.ok != ap.out.ok {
                    v.push(mwsim::explore::viol("C15", "twin.outcome_differs", format!("{}: ok={} with oracle, ok={} without ({:?} / {:?})", act_label(a), ap.out.ok, apt.out.ok, ap.out.err, apt.out.err)));
                } else if t.w != want.w || t.m != want.m || no_oracle(&apt.out.events) != no_oracle(&ap.out.events) {
                    let what = if t.w.kv != want.w.kv { "contract storage" } else if t.w != want.w { "bank / IBC / token-factory effects" } else if t.m != want.m { "batches / packets" } else { "emitted messages" };
                    v.push(mwsim::explore::viol("C15", "twin.effects_differ", format!("{}: {what} differ between the configured-oracle and oracle-less worlds", act_label(a))));
                }
                v
            }));
        }
        let depth = if thorough { 5 } else { 4 };
        out.push(Plan { sc, depth, required: vec!["goal:refund_resent", "goal:first_stake_into_empty_pool", "goal:ownerless_stake_swept", "goal:withdrawn", "SubmitBatch:ok", "HookReceiveRewards:ok", "HookReceiveUnstakedTokens:ok"] });
    }
    out
}

// ---------------------------------------------------------------- C02: solvency search
fn solv_plans(thorough: bool) -> Vec<Plan> {
    let mut out = Vec::new();
    for k in [K::k0(), K::k4()] {
        let seeds = named(
            &k,
            vec![
                ("resumed", small_funds(|| seed_resumed(&k), 150)),
                ("rate_up", small_funds(|| seed_rate_up(&k), 150)),
                ("queued", small_funds(|| seed_queued(&k), 150)),
                ("submitted", small_funds(|| seed_submitted(&k), 150)),
                ("received", small_funds(|| seed_received(&k), 150)),
                ("ten_batches", small_funds(|| seed_ten_batches(&k), 150)),
                ("mixed_refundable", small_funds(|| seed_mixed_refundable(&k, seed_received(&k), false), 150)),
                ("mixed_refundable_lst_lowest", small_funds(|| seed_mixed_refundable(&k, seed_received(&k), true), 150)),
                ("mid_received", small_funds(|| seed_mid_received(&k), 150)),
                ("many_rewards", small_funds(|| seed_many_rewards(&k), 150)),
                // two refundable staked-asset transfers while the contract also holds a received batch
                ("received_refundable2", small_funds(
                    || {
                        let mut s = seed_received(&k);
                        for kind in [1u8, 2] {
                            let ap = s.apply(&hold(stake(&u(1), 20 + kind as u128)));
                            let seq = ap.out.new_packets[0];
                            s.apply(&Act::Outcome { seq, kind });
                        }
                        s
                    },
                    150,
                )),
            ],
        );
        let mut o = MenuOpt::base();
        o.recover_forced = true;
        o.recover_forced_groups = true;
        o.deliver = vec![Rel::Exact, Rel::Minus1, Rel::Plus5, Rel::One];
        o.deliver_dev = false;
        o.fee_withdraw = vec![Rel::Exact, Rel::Half, Rel::Plus5];
        o.stake_to_staker = true;
        o.max_inflight = 2;
        o.stake_amts = vec![100];
        o.rewards = vec![50];
        o.unstake = vec![Frac::All, Frac::Fixed(7)];
        o.max_dev = if thorough { 2 } else { 1 };
        let kk = k.clone();
        let menu: Menu = Box::new(move |s| {
            let mut a = std_menu(s, &o);
            // treasury toggled between rewards and withdrawals
            let cfg = s.w.config();
            let newt = if cfg.protocol_fee_config.treasury_address.is_some() { None } else { Some(p20("tre")) };
            a.push(exec(
                &adm(),
                ExecuteMsg::UpdateConfig {
                    native_chain_config: None,
                    protocol_chain_config: None,
                    protocol_fee_config: Some(UnsafeProtocolFeeConfig { dao_treasury_fee: Uint128::new(kk.fee), treasury_address: newt }),
                    monitors: None,
                    batch_period: None,
                },
                vec![],
            ));
            a
        });
        let mut sc = mk(&format!("solv-{}", k.name), vec!["C02"], seeds, menu);
        sc.goal = Some(Box::new(|_pre, a, ap, post| {
            let mut g = vec![];
            if ap.out.ok {
                if let Act::Exec { msg: ExecuteMsg::Withdraw { batch_id }, .. } = a {
                    if let Some(b) = post.m.batches.get(batch_id) {
                        if b.received < b.expected {
                            g.push("slashed_batch_withdrawn".to_string());
                        }
                        if b.received > b.expected {
                            g.push("generous_batch_withdrawn".to_string());
                        }
                    }
                }
                if let Act::Exec { msg: ExecuteMsg::FeeWithdraw { .. }, .. } = a {
                    g.push("fees_withdrawn".to_string());
                }
                if let Act::Exec { msg: ExecuteMsg::RecoverPendingIbcTransfers { .. }, .. } = a {
                    g.push("refund_resent".to_string());
                }
            }
            g
        }));
        let depth = if thorough { 6 } else { 4 };
        out.push(Plan { sc, depth, required: vec!["goal:slashed_batch_withdrawn", "goal:generous_batch_withdrawn", "goal:fees_withdrawn", "goal:refund_resent"] });
    }
    out
}

// ---------------------------------------------------------------- C03: LST supply / delivery
fn lst_plans(thorough: bool) -> Vec<Plan> {
    let mut out = Vec::new();
    for k in [K::k0(), K::k2()] {
        let q = |f: fn(&K) -> Sim, k: &K| -> Option<Sim> {
            // leave LST queued in the pending batch so that an over-sized IBC delivery could succeed
            small_funds(
                || {
                    let mut sc = Script { s: f(k), strict: true, dead: false };
                    sc = sc.with(|s| unstake(s, &u(2), 40));
                    sc.done()
                },
                250,
            )
        };
        let q2 = |k: &K| -> Option<Sim> {
            small_funds(
                || {
                    let mut sc = Script { s: seed_two_stakes(k), strict: true, dead: false };
                    sc = sc.with(|s| unstake(s, &u(2), 40));
                    seed_two_lst_refundable(k, sc.done(), &n20(k, "n1"))
                },
                250,
            )
        };
        let seeds = named(
            &k,
            vec![
                ("resumed", small_funds(|| seed_resumed(&k), 250)),
                ("rate1_queued", q(seed_two_stakes, &k)),
                ("rate_up_queued", q(seed_rate_up, &k)),
                ("rate_down_queued", q(seed_rate_down, &k)),
                ("mid_amounts", small_funds(|| seed_mid_amounts(&k), 250)),
                ("mixed_refundable", small_funds(|| seed_mixed_refundable(&k, seed_received(&k), false), 250)),
                ("mixed_refundable_lst_lowest", small_funds(|| seed_mixed_refundable(&k, seed_received(&k), true), 250)),
                ("two_lst_refundable_queued", q2(&k)),
            ],
        );
        let mut o = MenuOpt::base();
        o.recover_forced = true;
        o.recover_forced_groups = true;
        o.rewards = vec![50];
        o.stake_amts = vec![100, 37];
        o.max_dev = if thorough { 2 } else { 1 };
        o.recover_receivers = vec![Some(n20(&k, "n1")), Some(n20(&k, "n2"))];
        let kk = k.clone();
        let menu: Menu = Box::new(move |s| {
            let mut a = std_menu(s, &o);
            let n1 = n20(&kk, "n1");
            let can_hold = s.g.dev < o.max_dev && s.w.ibc.flight.len() < o.max_inflight;
            let st = s.w.state();
            let (n, l) = (st.total_native_token.u128(), st.total_liquid_stake_token.u128());
            let m = if n == 0 || l == 0 { 100 } else { mwsim::arith::mul_div(100, l, n).unwrap_or(0) };
            // recipients on either chain, from 20- and 32-byte senders, with and without the flag
            for flag in [None, Some(true), Some(false)] {
                let x = stake_to(&u(1), 100, Some(n1.clone()), flag, None);
                if can_hold {
                    a.push(hold(x.clone()));
                }
                a.push(x);
            }
            a.push(stake_to(&u(1), 100, Some(u(3)), None, None));
            a.push(stake_to(&u(1), 100, Some(u(3)), Some(true), None));
            a.push(stake_to(&p32("c1"), 100, None, None, None));
            a.push(stake_to(&p32("c1"), 100, Some(u(3)), None, None));
            a.push(stake_to(&p32("c1"), 100, Some(n1.clone()), Some(true), None));
            for e in [m.saturating_sub(1), m, m + 1] {
                a.push(stake_to(&u(2), 100, None, None, Some(e)));
            }
            // callbacks of somebody else's packets (same sequence number, another channel whose id is a near
            // miss of the configured one) must not touch the contract's own transfers
            if s.g.dev < o.max_dev + 1 {
                for seq in s.w.ibc.flight.keys().take(2) {
                    for ch in [format!("{SIM_CHANNEL}1"), "channel-77".to_string()] {
                        a.push(Act::Sudo { msg: SudoMsg::IBCLifecycleComplete(IBCLifecycleComplete::IBCTimeout { channel: ch.clone(), sequence: *seq }) });
                        a.push(Act::Sudo { msg: SudoMsg::IBCLifecycleComplete(IBCLifecycleComplete::IBCAck { channel: ch, sequence: *seq, ack: "{\"error\":\"x\"}".into(), success: false }) });
                    }
                }
            }
            a
        });
        let mut sc = mk(&format!("lst-{}", k.name), vec!["C03"], seeds, menu);
        sc.goal = Some(Box::new(|pre, a, ap, _post| {
            let mut g = vec![];
            if ap.out.ok {
                if let Act::Exec { msg: ExecuteMsg::LiquidStake { .. }, .. } = a {
                    let st = pre.w.state();
                    let lstd = pre.w.lst_denom();
                    let ibc = ap.out.events.iter().any(|e| matches!(e, Ev::Transfer { denom, .. } if *denom == lstd));
                    let r = st.total_native_token.cmp(&st.total_liquid_stake_token);
                    let rs = match r {
                        std::cmp::Ordering::Less => "below1",
                        std::cmp::Ordering::Equal => "at1",
                        std::cmp::Ordering::Greater => "above1",
                    };
                    g.push(format!("stake_{}_rate_{}", if ibc { "ibc" } else { "bank" }, rs));
                }
                if let Act::Exec { msg: ExecuteMsg::SubmitBatch {}, .. } = a {
                    g.push("burned".into());
                }
            }
            g
        }));
        let depth = if thorough { 5 } else { 3 };
        out.push(Plan {
            sc,
            depth,
            required: vec![
                "goal:stake_ibc_rate_below1",
                "goal:stake_ibc_rate_at1",
                "goal:stake_ibc_rate_above1",
                "goal:stake_bank_rate_below1",
                "goal:stake_bank_rate_above1",
                "goal:burned",
            ],
        });
    }
    out
}

// ---------------------------------------------------------------- C05: withdrawals
fn wd_plans(thorough: bool) -> Vec<Plan> {
    let mut out = Vec::new();
    let k = K::k0();
    let three = |k: &K, reward: bool| -> Sim {
        let mut sc = Script::resumed(k).run(stake(&u(1), 100)).run(stake(&u(2), 60)).run(stake(&u(3), 45));
        if reward {
            sc = sc.with(|s| rewards(s, 50));
        }
        sc = sc.with(|s| unstake(s, &u(1), 10)).with(|s| unstake(s, &u(2), 7)).with(|s| unstake(s, &u(3), 1));
        sc.with(|s| advance(pending_due(s))).done()
    };
    let two_batches = |k: &K| -> Sim {
        let mut s = three(k, true);
        assert!(s.apply(&submit(&u(1))).out.ok);
        let a = unstake(&s, &u(1), 10);
        assert!(s.apply(&a).out.ok);
        let a = unstake(&s, &u(2), 7);
        assert!(s.apply(&a).out.ok);
        let d = pending_due(&s);
        s.apply(&advance(d));
        s
    };
    let mut seeds = vec![("three_rate1", small_funds(|| three(&k, false), 0)), ("three_rate_up", small_funds(|| three(&k, true), 0))];
    seeds.push(("four_requesters", small_funds(|| seed_four_requesters(&k), 0)));
    seeds.push(("ten_batches", small_funds(|| seed_ten_batches(&k), 0)));
    seeds.push(("thirty_three_batches", small_funds(|| seed_n_batches(&k, 33, true, false), 0)));
    seeds.push(("many_requesters", small_funds(|| seed_many_requesters(&k, 120), 0)));
    seeds.push(("huge_store", small_funds(|| seed_n_batches(&k, 150, true, true), 0)));
    seeds.push(("crowd", small_funds(|| seed_crowd(&k, 1_100), 0)));
    seeds.push(("mid_received", small_funds(|| seed_mid_received(&k), 0)));
    if thorough {
        seeds.push(("two_batches", small_funds(|| two_batches(&k), 0)));
        seeds.push(("mid_amounts", small_funds(|| seed_mid_amounts(&k), 0)));
    }
    let seeds = named(&k, seeds);
    let mut o = MenuOpt::base();
    o.stakers = vec![];
    o.stake_amts = vec![];
    o.rewards = vec![];
    o.unstakers = vec![u(1), u(2), u(3)];
    o.unstake = vec![Frac::Fixed(10), Frac::Fixed(7), Frac::Fixed(1)];
    o.deliver = vec![Rel::Exact, Rel::Minus1, Rel::Half, Rel::Plus5, Rel::One];
    o.deliver_dev = false;
    o.withdraw_all_pairs = true;
    o.funded_variants = true;
    o.withdrawers = vec![u(1), u(2), u(3), p20("u4"), p20("x"), rq(1), rq(2)];
    o.holds = false;
    o.max_dev = 0;
    o.fee_withdraw = vec![];
    o.max_batches = if thorough { 3 } else { 2 };
    let menu: Menu = Box::new(move |s| {
        let mut a = std_menu(s, &o);
        // limit repeated unstakes: at most 2 further requests per batch
        let pend = &s.m.batches[&s.m.pending];
        if pend.total >= 30 {
            a.retain(|x| !matches!(x, Act::Exec { msg: ExecuteMsg::LiquidUnstake {}, .. }));
        }
        a
    });
    let mut sc = mk("wd-K0", vec!["C05"], seeds, menu);
    sc.goal = Some(Box::new(|pre, a, ap, post| {
        let mut g = vec![];
        if let Act::Exec { sender, msg: ExecuteMsg::Withdraw { batch_id }, .. } = a {
            if ap.out.ok {
                g.push("withdraw_ok".to_string());
                if let Some(b) = post.m.batches.get(batch_id) {
                    if b.requests.is_empty() && b.requesters >= 3 {
                        g.push("all_three_withdrew".to_string());
                    }
                    if b.received < b.expected {
                        g.push("short_batch_withdrawn".into());
                    }
                    if b.received > b.expected {
                        g.push("long_batch_withdrawn".into());
                    }
                }
            } else if let Some(b) = pre.m.batches.get(batch_id) {
                if b.status == MStatus::Received && !b.requests.contains_key(sender) && b.paid > 0 {
                    g.push("second_withdraw_refused".to_string());
                }
            }
        }
        if let Act::Exec { sender, msg: ExecuteMsg::LiquidUnstake {}, .. } = a {
            if ap.out.ok && pre.m.batches[&pre.m.pending].requests.contains_key(sender) {
                g.push("repeated_request_accumulated".into());
            }
        }
        g
    }));
    let depth = if thorough { 7 } else { 6 };
    out.push(Plan {
        sc,
        depth,
        required: vec!["goal:withdraw_ok", "goal:all_three_withdrew", "goal:second_withdraw_refused", "goal:repeated_request_accumulated", "goal:short_batch_withdrawn", "goal:long_batch_withdrawn"],
    });
    out
}

// ---------------------------------------------------------------- C06: lifecycle and timing
fn life_plans(thorough: bool) -> Vec<Plan> {
    vec![life_plan(thorough, false), life_plan(thorough, true)]
}
/// `exit == true`: the "+exit" plan — every holder can unstake everything it holds, so that the pending
/// batch can hold the whole outstanding LST supply when it falls due (a full exit / single-holder
/// deployment); explored from the short seeds only, one level shallower.
fn life_plan(thorough: bool, exit: bool) -> Plan {
    let k = K::k0();
    let seeds = if exit {
        named(
            &k,
            vec![
                ("two_stakes", small_funds(|| seed_two_stakes(&k), 0)),
                ("rate_up", small_funds(|| seed_rate_up(&k), 0)),
                ("rate_down", small_funds(|| seed_rate_down(&k), 0)),
            ],
        )
    } else {
    named(
        &k,
        vec![
            ("fresh", small_funds(|| seed_fresh(&k), 0)),
            ("two_stakes", small_funds(|| seed_two_stakes(&k), 0)),
            ("rate_up", small_funds(|| seed_rate_up(&k), 0)),
            ("rate_down", small_funds(|| seed_rate_down(&k), 0)),
            ("ten_batches", small_funds(|| seed_ten_batches(&k), 0)),
            ("eight_submitted", small_funds(|| seed_n_batches(&k, 8, false, false), 0)),
            ("far_future", small_funds(|| seed_far_future(&k), 0)),
            // crowded batches: a submission whose cost or arithmetic depends on the number of requesters
            ("many_requesters", small_funds(|| seed_many_requesters(&k, 120), 0)),
            ("crowd", small_funds(|| seed_crowd(&k, 1_100), 0)),
        ],
    )
    };
    let mut o = MenuOpt::base();
    o.stakers = vec![];
    o.stake_amts = vec![];
    o.rewards = vec![];
    o.unstake = if exit { vec![Frac::All] } else { vec![Frac::Fixed(20), Frac::Fixed(1)] };
    o.unstakers = vec![u(1), u(2)];
    o.funded_variants = true;
    o.time_boundaries = true;
    o.submitters = vec![u(1), adm(), p20("x"), contract_addr()];
    o.holds = false;
    o.max_dev = 0;
    o.halt_resume = true;
    o.fee_withdraw = vec![];
    o.max_batches = if thorough { 4 } else { 3 };
    o.withdraw_all_pairs = false;
    let kk = k.clone();
    let menu: Menu = Box::new(move |s| {
        let mut a = std_menu(s, &o);
        // deliveries for every batch id (also pending / received / unknown), from the staker's hook
        // account and from the reward collector's, at the current time
        let maxid = s.m.batches.len() as u64 + 1;
        let mut ids: Vec<u64> = vec![0, s.m.pending, maxid];
        let subm: Vec<u64> = s.m.batches.values().filter(|b| b.status == MStatus::Submitted).map(|b| b.id).collect();
        ids.extend(subm.first());
        ids.extend(subm.last());
        ids.extend(s.m.batches.values().find(|b| b.status == MStatus::Received).map(|b| b.id));
        ids.sort();
        ids.dedup();
        for b in ids {
            let exp = s.m.batches.get(&b).and_then(|x| x.expected).unwrap_or(25).max(1);
            let d = deliver(s, b, exp);
            if !a.contains(&d) {
                a.push(d);
            }
        }
        if let Some(b) = s.m.batches.values().find(|b| b.status == MStatus::Submitted) {
            a.push(deliver_from(&n20(&kk, "collector"), b.id, b.expected.unwrap_or(1).max(1)));
        }
        // batch period change
        let cfg = s.w.config();
        if cfg.batch_period == kk.batch_period && s.m.batches.len() as u64 <= 2 + s.g.seed_batches {
            a.push(exec(
                &adm(),
                ExecuteMsg::UpdateConfig { native_chain_config: None, protocol_chain_config: None, protocol_fee_config: None, monitors: None, batch_period: Some(40) },
                vec![],
            ));
        }
        a
    });
    let mut sc = mk(if exit { "life-K0+exit" } else { "life-K0" }, vec!["C06"], seeds, menu);
    sc.goal = Some(Box::new(|pre, a, ap, _post| {
        let mut g = vec![];
        match a {
            Act::Exec { msg: ExecuteMsg::SubmitBatch {}, .. } => {
                let due = pending_due(pre);
                let supply = pre.w.state().total_liquid_stake_token.u128();
                if ap.out.ok && supply > 0 && pre.m.batches.get(&pre.m.pending).map(|b| b.total) == Some(supply) {
                    g.push("submit_accepted_whole_supply".into());
                }
                if pre.w.time + 1 == due && !ap.out.ok {
                    g.push("submit_refused_one_second_early".into());
                }
                if pre.w.time == due && ap.out.ok {
                    g.push("submit_accepted_exactly_at_deadline".into());
                }
                if pre.w.time == due + 1 && ap.out.ok {
                    g.push("submit_accepted_after_deadline".into());
                }
            }
            Act::Hook { msg: ExecuteMsg::ReceiveUnstakedTokens { batch_id }, .. } => {
                if let Some(b) = pre.m.batches.get(batch_id) {
                    if b.status == MStatus::Submitted {
                        if pre.w.time + 1 == b.due && !ap.out.ok {
                            g.push("deliver_refused_one_second_early".into());
                        }
                        if pre.w.time == b.due && ap.out.ok {
                            g.push("deliver_accepted_exactly_at_deadline".into());
                        }
                    }
                }
            }
            _ => {}
        }
        g
    }));
    let depth = if thorough { 8 } else { 7 } - if exit { 1 } else { 0 };
    let mut required = vec![
        "goal:submit_refused_one_second_early",
        "goal:submit_accepted_exactly_at_deadline",
        "goal:submit_accepted_after_deadline",
        "goal:deliver_refused_one_second_early",
        "goal:deliver_accepted_exactly_at_deadline",
    ];
    if exit {
        required.push("goal:submit_accepted_whole_supply");
    }
    Plan { sc, depth, required }
}

// ---------------------------------------------------------------- C07: IBC tracking / recovery
fn refundable_seed(k: &K, n: usize) -> Sim {
    refundable_seed_from(k, n, 1)
}

/// a second staked-asset denom the admin may switch the configuration to
pub fn denom2() -> String {
    format!("ibc/{}", "27394FB092D2ECCD56123C74F36E4C1F926001CEADA9CA97EA622B25F41E5EB2")
}

/// like `refundable_seed`, with the channel's sequence counter starting at `first_seq`
/// (sequences crossing 9 -> 10, 255 -> 256 …)
fn refundable_seed_from(k: &K, n: usize, first_seq: u64) -> Sim {
    // n refundable staked-asset packets for the staker (exercises the page size of 10)
    let mut s = seed_resumed(k);
    s.w.ibc.next_seq = first_seq;
    for i in 0..n {
        let ap = s.apply(&hold(stake(&u(1), 10 + i as u128)));
        assert!(ap.out.ok, "{:?}", ap.out.err);
        let seq = ap.out.new_packets[0];
        s.apply(&Act::Outcome { seq, kind: if i % 2 == 0 { 1 } else { 2 } });
    }
    s
}

fn ibc_plans(thorough: bool) -> Vec<Plan> {
    let mut out = Vec::new();
    for k in [K::k0(), K::k2()] {
        if k.name == "K2" && !thorough {
            continue;
        }
        let mut seeds = vec![
            ("resumed", small_funds(|| seed_resumed(&k), 120)),
            ("rate_up", small_funds(|| seed_rate_up(&k), 120)),
            ("refundable11", small_funds(|| refundable_seed(&k, 11), 40)),
            ("refundable12_from_seq8", small_funds(|| refundable_seed_from(&k, 12, 8), 40)),
            ("refundable140", small_funds(|| refundable_seed(&k, 140), 40)),
            // a refunded transfer behind eleven that are still in flight: the page of ten has to be filled
            // from the refundable ones, not from whatever comes first
            ("refundable_behind_inflight", small_funds(
                || {
                    let mut s = seed_resumed(&k);
                    for i in 0..11u128 {
                        let ap = s.apply(&hold(stake(&u(1), 10 + i)));
                        assert!(ap.out.ok, "{:?}", ap.out.err);
                    }
                    let ap = s.apply(&hold(stake(&u(1), 77)));
                    assert!(ap.out.ok, "{:?}", ap.out.err);
                    s.apply(&Act::Outcome { seq: ap.out.new_packets[0], kind: 2 });
                    s
                },
                40,
            )),
            ("mixed_refundable", small_funds(|| seed_mixed_refundable(&k, seed_two_stakes(&k), false), 60)),
            ("mixed_refundable_lst_lowest", small_funds(|| seed_mixed_refundable(&k, seed_two_stakes(&k), true), 60)),
            ("refundable2_two_denoms", small_funds(
                || {
                    // the admin can change the staked-asset denom (a new channel gives a new ibc/ hash):
                    // users also hold the second denom
                    let mut s = refundable_seed(&k, 2);
                    s.w.credit(&u(1), &denom2(), 100);
                    s
                },
                60,
            )),
        ];
        if thorough {
            seeds.push(("refundable2", small_funds(|| refundable_seed(&k, 2), 60)));
            seeds.push(("refundable21_from_seq250", small_funds(|| refundable_seed_from(&k, 21, 250), 40)));
        }
        let seeds = named(&k, seeds);
        let kk = k.clone();
        let maxk = if thorough { 4 } else { 3 };
        let menu: Menu = Box::new(move |s| {
            let mut a: Vec<Act> = Vec::new();
            let n1 = n20(&kk, "n1");
            let staker = n20(&kk, "staker");
            let outstanding = s.m.packets.len();
            let sent_new = s.w.ibc.next_seq <= 16 + s.g.seed_seq;
            let cfg = s.w.config();
            let cur_denom = cfg.protocol_chain_config.ibc_token_denom.clone();
            if cur_denom != sd() {
                // after a denom change stakes are paid in the configured denom
                if outstanding < maxk && sent_new && s.w.bal(&u(1), &cur_denom) >= 20 {
                    a.push(hold(exec(&u(1), ExecuteMsg::LiquidStake { mint_to: None, transfer_to_native_chain: None, expected_mint_amount: None }, vec![(cur_denom.clone(), 20)])));
                }
            } else if s.w.bal(&u(1), &denom2()) >= 20 && s.refundable().next().is_some() {
                let mut pc = instantiate_msg(&kk).protocol_chain_config;
                pc.ibc_token_denom = denom2();
                a.push(exec(&adm(), ExecuteMsg::UpdateConfig { native_chain_config: None, protocol_chain_config: Some(pc), protocol_fee_config: None, monitors: None, batch_period: None }, vec![]));
            }
            if outstanding < maxk && sent_new && cur_denom == sd() {
                if s.w.bal(&u(1), &sd()) >= 20 {
                    a.push(hold(stake(&u(1), 20)));
                    a.push(hold(stake_to(&u(1), 20, Some(n1.clone()), Some(true), None)));
                    a.push(hold(stake_to(&u(1), 20, Some(staker.clone()), Some(true), None)));
                    // a 32-byte native account (interchain account, module, contract) as LST recipient
                    a.push(hold(stake_to(&u(1), 20, Some(n32(&kk, "m1")), Some(true), None)));
                    a.push(stake(&u(1), 20));
                }
                if !s.w.state().total_liquid_stake_token.is_zero() {
                    a.push(hold(rewards(s, 30)));
                }
            }
            for seq in s.w.ibc.flight.keys() {
                for kind in 0..3u8 {
                    a.push(Act::Outcome { seq: *seq, kind });
                }
            }
            a.push(Act::IbcUp { up: !s.w.ibc.up });
            // the transfer module answers without reply data / with undecodable data
            if s.w.ibc.reply_fault != 0 {
                a.push(Act::ReplyFault { mode: 0 });
            } else if outstanding < maxk {
                a.push(Act::ReplyFault { mode: 1 });
                a.push(Act::ReplyFault { mode: 2 });
            }
            // stray acknowledgements: other channel, unknown sequence, already settled sequence
            let known: Vec<u64> = s.m.packets.keys().copied().collect();
            let mut strays: Vec<(String, u64)> = vec![("channel-77".into(), 1), (SIM_CHANNEL.into(), 999)];
            if let Some(k0) = known.first() {
                strays.push(("channel-77".into(), *k0));
                // channel ids that are near misses of the configured one: an extension, a prefix, another spelling
                for ch in [format!("{SIM_CHANNEL}1"), format!("{SIM_CHANNEL}/x"), SIM_CHANNEL[..SIM_CHANNEL.len() - 1].to_string(), SIM_CHANNEL.to_uppercase(), format!(" {SIM_CHANNEL}"), format!("channel-0{}", &SIM_CHANNEL["channel-".len()..])] {
                    strays.push((ch, *k0));
                }
            }
            if s.w.ibc.next_seq > 1 && !known.contains(&1) {
                strays.push((SIM_CHANNEL.into(), 1));
            }
            for (ch, seq) in strays {
                a.push(Act::Sudo { msg: SudoMsg::IBCLifecycleComplete(IBCLifecycleComplete::IBCAck { channel: ch.clone(), sequence: seq, ack: "x".into(), success: false }) });
                a.push(Act::Sudo { msg: SudoMsg::IBCLifecycleComplete(IBCLifecycleComplete::IBCAck { channel: ch.clone(), sequence: seq, ack: "x".into(), success: true }) });
                a.push(Act::Sudo { msg: SudoMsg::IBCLifecycleComplete(IBCLifecycleComplete::IBCTimeout { channel: ch, sequence: seq }) });
            }
            // recoveries
            if s.w.bal(&p20("x"), &sd()) >= 1 && s.refundable().next().is_some() {
                a.push(exec(&p20("x"), ExecuteMsg::RecoverPendingIbcTransfers { paginated: None, selected_packets: None, receiver: None }, vec![(sd(), 1)]));
            }
            for (pg, rc) in [
                (None, None),
                (Some(true), None),
                (None, Some(n1.clone())),
                (None, Some(staker.clone())),
                (Some(true), Some(n1.clone())),
                (None, Some("garbage".to_string())),
                (None, Some(u(3))),
                (None, Some(n32(&kk, "m1"))),
            ] {
                a.push(recover(&p20("x"), pg, None, rc));
            }
            // admin-forced selections: every subset of size <= 2 of known + one unknown id, with repeats
            let mut ids: Vec<u64> = known.iter().copied().take(3).collect();
            ids.push(999);
            let mut sels: Vec<Vec<u64>> = vec![vec![]];
            for i in &ids {
                sels.push(vec![*i]);
                for j in &ids {
                    sels.push(vec![*i, *j]);
                    if i != j {
                        // a repeated id that is not adjacent to its first occurrence
                        sels.push(vec![*i, *j, *i]);
                    }
                }
            }
            for sel in sels {
                for rc in [None, Some(n1.clone())] {
                    // forced recovery of packets still in flight is a documented admin override (DESIGN O3): not offered
                    if sel.iter().any(|i| s.m.packets.get(i).map(|p| p.status == PStatus::Sent).unwrap_or(false)) {
                        continue;
                    }
                    a.push(recover(&adm(), None, Some(sel.clone()), rc.clone()));
                }
                a.push(recover(&p20("x"), None, Some(sel.clone()), None));
            }
            a
        });
        let mut sc = mk(&format!("ibc-{}", k.name), vec!["C07"], seeds, menu);
        sc.dev_cost = no_dev;
        sc.goal = Some(Box::new(|pre, a, ap, _post| {
            let mut g = vec![];
            if let Act::Exec { sender, msg: ExecuteMsg::RecoverPendingIbcTransfers { paginated, selected_packets, receiver }, .. } = a {
                if ap.out.ok {
                    let n = ap.recover_selected.as_ref().map(|v| v.len()).unwrap_or(0);
                    g.push("recovered".to_string());
                    if n >= 2 {
                        g.push("recovered_sum_of_several".into());
                    }
                    if paginated.unwrap_or(false) && n == 10 {
                        g.push("recovered_full_page".into());
                    }
                    if selected_packets.is_some() {
                        g.push("forced_recovery".into());
                    }
                    if receiver.is_some() {
                        g.push("receiver_directed_recovery".into());
                    }
                    if pre.refundable().count() > n {
                        g.push("recovery_left_other_refunds".into());
                    }
                } else if selected_packets.is_some() && *sender != adm() {
                    g.push("forced_by_non_admin_refused".into());
                }
            }
            if let Act::Exec { msg: ExecuteMsg::LiquidStake { .. }, .. } | Act::Hook { .. } = a {
                if !pre.w.ibc.up && !ap.out.ok {
                    g.push("submission_failure_rolled_back".into());
                }
            }
            if let Act::Outcome { kind, .. } = a {
                g.push(format!("outcome{kind}"));
            }
            g
        }));
        let depth = if thorough { 5 } else { 4 };
        out.push(Plan {
            sc,
            depth,
            required: vec![
                "goal:recovered",
                "goal:recovered_sum_of_several",
                "goal:recovered_full_page",
                "goal:forced_recovery",
                "goal:receiver_directed_recovery",
                "goal:forced_by_non_admin_refused",
                "goal:submission_failure_rolled_back",
                "goal:outcome0",
                "goal:outcome1",
                "goal:outcome2",
                "StraySudo:ok",
            ],
        });
    }
    out
}

// ---------------------------------------------------------------- C11: fee history
fn fee_plans(thorough: bool) -> Vec<Plan> {
    let mut out = Vec::new();
    for k in [K::k0(), K::k4()] {
        let seeds = named(&k, vec![("two_stakes", small_funds(|| seed_two_stakes(&k), 0)), ("resumed", small_funds(|| seed_resumed(&k), 100)), ("sweep", small_funds(|| seed_sweep(&k), 100)), ("many_rewards", small_funds(|| seed_many_rewards(&k), 100)), ("mid_amounts", small_funds(|| seed_mid_amounts(&k), 0))]);
        let menu: Menu = Box::new(move |s| {
            let mut a: Vec<Act> = Vec::new();
            if s.w.ibc.next_seq <= 8 + s.g.seed_seq {
                a.push(rewards(s, 50));
                a.push(rewards(s, 7));
                if s.w.bal(&u(1), &sd()) >= 100 {
                    a.push(stake(&u(1), 100));
                }
            }
            let cfg = s.w.config();
            for (t, r) in [(None, 10_000u128), (Some(p20("tre")), 10_000), (Some(p20("tre2")), 10_000), (Some(p20("tre")), 0), (None, 100_000), (Some(p20("tre")), 100_000)] {
                let cur_t = cfg.protocol_fee_config.treasury_address.as_ref().map(|x| x.to_string());
                if cur_t == t && cfg.protocol_fee_config.dao_treasury_fee.u128() == r {
                    continue;
                }
                a.push(exec(
                    &adm(),
                    ExecuteMsg::UpdateConfig {
                        native_chain_config: None,
                        protocol_chain_config: None,
                        protocol_fee_config: Some(UnsafeProtocolFeeConfig { dao_treasury_fee: Uint128::new(r), treasury_address: t }),
                        monitors: None,
                        batch_period: None,
                    },
                    vec![],
                ));
            }
            let fees = s.w.state().total_fees.u128();
            let mut amts = vec![0, fees / 2, fees, fees + 1];
            amts.dedup();
            for x in amts {
                a.push(fee_withdraw(&adm(), x));
            }
            a.push(fee_withdraw(&p20("x"), fees));
            a.push(fee_withdraw(&p20("tre"), fees));
            // the bank may refuse to pay the treasury (partial failure of a multi-message response)
            if s.w.ibc.reply_fault == 0 && cfg.protocol_fee_config.treasury_address.is_some() {
                a.push(Act::ReplyFault { mode: 4 });
            } else if s.w.ibc.reply_fault != 0 {
                a.push(Act::ReplyFault { mode: 0 });
            }
            a
        });
        let mut sc = mk(&format!("fee-{}", k.name), vec!["C11"], seeds, menu);
        sc.goal = Some(Box::new(|pre, a, ap, post| {
            let mut g = vec![];
            if ap.out.ok {
                if let Act::Exec { msg: ExecuteMsg::FeeWithdraw { amount }, .. } = a {
                    if !amount.is_zero() {
                        g.push("fees_withdrawn".to_string());
                        if pre.g.fees_accrued > 0 && pre.w.config().protocol_fee_config.treasury_address != Some(cosmwasm_std::Addr::unchecked(p20("tre"))) {
                            g.push("withdrawn_to_changed_treasury".into());
                        }
                    }
                }
                if let Act::Hook { msg: ExecuteMsg::ReceiveRewards {}, .. } = a {
                    if post.g.fees_accrued > pre.g.fees_accrued {
                        g.push("fee_accrued".into());
                    }
                    if post.g.fees_direct > pre.g.fees_direct {
                        g.push("fee_paid_directly".into());
                    }
                }
            }
            g
        }));
        let depth = if thorough { 7 } else { 4 };
        out.push(Plan { sc, depth, required: vec!["goal:fees_withdrawn", "goal:fee_accrued", "goal:fee_paid_directly", "goal:withdrawn_to_changed_treasury"] });
    }
    out
}

// ---------------------------------------------------------------- C16: no entry point panics (history part)
pub fn panic_plans(thorough: bool) -> Vec<Plan> {
    let mut out = Vec::new();
    for k in [K::k0(), K::k1(), K::k2(), K::k4(), K::k3(100_000), K::k3(150_000)] {
        // only the freshly instantiated (halted) contract is a seed: everything else is reached by the search
        let seeds = named(&k, vec![("fresh", small_funds(|| seed_fresh(&k), 250))]);
        let mut o = MenuOpt::base();
        o.stake_native = true;
        o.stake_other = true;
        o.halt_resume = true;
        o.slashed_resume = true;
        o.deliver = vec![Rel::Exact, Rel::Minus1, Rel::Plus5];
        o.max_dev = 1;
        o.stake_amts = vec![100];
        o.rewards = vec![50];
        o.unstake = vec![Frac::All];
        let mut sc = mk(&format!("panic-{}", k.name), vec![], seeds, Box::new(move |s| std_menu(s, &o)));
        sc.panics_are = Some("C16");
        out.push(Plan { sc, depth: if thorough { 9 } else { 7 }, required: vec!["ResumeContract:ok"] });
    }
    out
}

/// seeds with long scripted prefixes (many batches) are explored in a plan of their own, at a
/// smaller depth: their states are large and their menus wide
fn is_deep(seed: &str) -> bool {
    ["ten_batches", "thirty_three_batches", "eight_submitted", "many_requesters", "huge_store", "refundable140", "crowd"].iter().any(|d| seed.ends_with(d))
}

pub fn plans(prop: &str, thorough: bool) -> Vec<Plan> {
    let mut out = vec![];
    for mut p in plans_all(prop, thorough) {
        p.sc.seeds.retain(|(n, _)| !is_deep(n));
        out.push(p);
    }
    for mut p in plans_all(prop, thorough) {
        p.sc.seeds.retain(|(n, _)| is_deep(n));
        if p.sc.seeds.is_empty() {
            continue;
        }
        p.sc.name = format!("{}+deep", p.sc.name);
        p.depth = if thorough { 4 } else { 3 };
        p.required = vec![];
        out.push(p);
    }
    out
}

fn plans_all(prop: &str, thorough: bool) -> Vec<Plan> {
    match prop {
        "C01" => acct_plans("C01", thorough),
        "C15" => acct_plans("C15", thorough),
        "C02" => solv_plans(thorough),
        "C03" => lst_plans(thorough),
        "C05" => wd_plans(thorough),
        "C06" => life_plans(thorough),
        "C07" => ibc_plans(thorough),
        "C11" => fee_plans(thorough),
        _ => vec![],
    }
}

pub fn scenarios(prop: &str, thorough: bool) -> Vec<StakingScenario> {
    plans(prop, thorough).into_iter().map(|p| p.sc).collect()
}

pub fn run(prop: &str, thorough: bool) -> i32 {
    let mut r = Runner::new(prop, if thorough { "thorough" } else { "quick" });
    for p in plans(prop, thorough) {
        let lim = Limits { max_depth: p.depth, max_states: if thorough { 30_000_000 } else { 3_000_000 }, max_wall_s: if thorough { 1500.0 } else { 240.0 } };
        // the lifecycle and IBC searches are additionally explored by a second, independently written
        // engine (stateright BFS); both engines must reach exactly the same set of worlds
        if matches!(prop, "C06" | "C07") || (thorough && prop == "C05") {
            r.run_scenario_crosschecked(std::sync::Arc::new(p.sc), lim, &p.required);
        } else {
            r.run_scenario(&p.sc, lim, &p.required);
        }
    }
    if prop == "C05" {
        crate::store_pin::counterless_batches(&mut r, "C05");
    }
    if matches!(prop, "C01" | "C03" | "C07") {
        channel_rotation_grid(&mut r, if prop == "C01" { "C01" } else if prop == "C03" { "C03" } else { "C07" });
    }
    if prop == "C06" {
        submit_cost_grid(&mut r);
        // the lifecycle also has to work on the stores that deployed contracts already hold
        r.assumptions.push("deployed bytes: /verif/baselines/staking-stores.json holds the stores the pinned tree writes for eight scripted histories; the tree under test must read and operate them like stores it wrote itself".into());
        crate::store_pin::run_pin(&mut r, "C06");
    }
    r.finish()
}

/// SubmitBatch is permissionless and the number of requesters of a batch is controlled by anybody (one
/// token per new address): on a chain with a block gas limit "succeeds exactly when the batch is non-empty and
/// due" can only hold if the work of a submission does not grow with the number of requesters. The simulator
/// has no gas meter; it counts the storage records a transaction reads. The count for pending batches of 3,
/// 120 and 370 requesters must be the same up to a small constant.
fn submit_cost_grid(r: &mut Runner) {
    use mwsim::explore::viol;
    use serde_json::json;
    let k = K::k0();
    let mut rows: Vec<(String, usize, u64, bool)> = vec![];
    let cands: Vec<(&str, Option<Sim>)> = vec![
        ("queued", try_seed(|| seed_queued(&k))),
        ("four_requesters", try_seed(|| seed_four_requesters(&k))),
        ("many_requesters", try_seed(|| seed_many_requesters(&k, 120))),
        ("crowd", try_seed(|| seed_crowd(&k, 1_100))),
    ];
    for (name, s) in cands {
        let Some(mut s) = s else { continue };
        let requesters = s.m.batches[&s.m.pending].requests.len();
        let due = pending_due(&s).max(s.w.time + 1);
        s.apply(&advance(due));
        let ap = s.apply(&submit(&p20("x")));
        rows.push((name.to_string(), requesters, ap.out.reads, ap.out.ok));
    }
    let mut viols = vec![];
    let ok_rows: Vec<&(String, usize, u64, bool)> = rows.iter().filter(|x| x.3).collect();
    if let (Some(small), Some(big)) = (ok_rows.iter().min_by_key(|x| x.1), ok_rows.iter().max_by_key(|x| x.1)) {
        if big.1 > small.1 + 50 && big.2 > small.2 + 16 {
            viols.push((
                viol("C06", "submit.cost_grows_with_requesters", format!("SubmitBatch read {} storage records for a batch of {} requesters and {} for a batch of {}: its cost grows with the number of requesters, so a crowded due batch cannot be submitted within a block gas limit", big.2, big.1, small.2, small.1)),
                json!({"rows": rows.iter().map(|x| json!({"seed": x.0, "requesters": x.1, "storage_reads": x.2, "ok": x.3})).collect::<Vec<_>>()}),
            ));
        }
    }
    r.notes.push(format!("storage records read by SubmitBatch (seed, requesters, reads, ok): {:?}", rows));
    let n = rows.len() as u64;
    r.grid("c06-submit-cost: storage reads of SubmitBatch against the number of requesters of the batch", n, 2, ok_rows.len() as u64, n - ok_rows.len() as u64, vec![json!({"seed": "crowd", "requesters": 370})], viols);
}

/// Channel rotation. IBC numbers the packets of every channel from 1, the contract files its transfers under
/// the bare sequence. After the admin moves the configuration to a second channel, acknowledgements of the
/// old channel are ignored (as they must be), so records of old packets linger; the first transfers on the new
/// channel reuse their sequence numbers. Whatever the contract does with the stale records, a transfer of the
/// new channel that fails must be re-sent with its own amount, denom and receiver — not with those of the
/// record that happened to carry the same number. Scripted with every assignment of {held, acknowledged} to
/// the two old packets and {timeout, error ack} to the new ones.
fn channel_rotation_grid(r: &mut Runner, prop: &'static str) {
    use mwsim::explore::viol;
    use serde_json::json;
    let k = K::k0();
    let mut n = 0u64;
    let mut good = 0u64;
    let mut viols = vec![];
    let n1 = n20(&k, "n1");
    let staker = n20(&k, "staker");
    for old_acked in 0..4u8 {
        for fail_kind in [1u8, 2] {
            for which_new in 0..2usize {
                let Some(seed) = try_seed(|| seed_resumed(&k)) else { continue };
                let mut w = seed.w.clone();
                let lst = w.lst_denom();
                w.fund(&u(1), 10_000);
                w.fund(&u(2), 10_000);
                let case = json!({"old_packets_acknowledged_before_the_move": old_acked, "failure": if fail_kind == 1 { "error ack" } else { "timeout" }, "failing_new_packet": which_new});
                // two stakes on the first channel: packets 1 and 2 (staked asset to the staker)
                let o1 = w.exec(&u(1), ExecuteMsg::LiquidStake { mint_to: None, transfer_to_native_chain: None, expected_mint_amount: None }, &[(sd(), 1_000)]);
                let o2 = w.exec(&u(1), ExecuteMsg::LiquidStake { mint_to: None, transfer_to_native_chain: None, expected_mint_amount: None }, &[(sd(), 2_000)]);
                if !o1.ok || !o2.ok || o1.new_packets != vec![1] || o2.new_packets != vec![2] {
                    continue;
                }
                for (i, seq) in [1u64, 2].iter().enumerate() {
                    if old_acked & (1 << i) != 0 {
                        w.outcome(*seq, 0);
                    }
                }
                // somebody queues LST, so that the contract holds LST that is not the new delivery's
                let minted = w.bal(&u(1), &lst);
                let ou = w.exec(&u(1), ExecuteMsg::LiquidUnstake {}, &[(lst.clone(), minted / 3)]);
                // the admin moves to the second channel
                let mut pc = instantiate_msg(&k).protocol_chain_config;
                pc.ibc_channel_id = ALT_CHANNEL.to_string();
                let oc = w.exec(&adm(), ExecuteMsg::UpdateConfig { native_chain_config: None, protocol_chain_config: Some(pc), protocol_fee_config: None, monitors: None, batch_period: None }, &[]);
                if !ou.ok || !oc.ok {
                    continue;
                }
                // late acknowledgements of the old channel (ignored by the contract: another channel)
                for seq in [1u64, 2] {
                    if w.ibc.flight.contains_key(&seq) {
                        w.outcome(seq, 0);
                    }
                }
                // a stake on the new channel with the LST delivered to a native account: packets 1 (staked asset)
                // and 2 (LST) of the new channel
                let o3 = w.exec(&u(2), ExecuteMsg::LiquidStake { mint_to: Some(n1.clone()), transfer_to_native_chain: Some(true), expected_mint_amount: None }, &[(sd(), 500)]);
                n += 1;
                if !o3.ok || o3.new_packets.len() != 2 {
                    viols.push((viol(prop, "rotation.stake_refused", format!("stake on the second channel failed: {:?}", o3.err)), case.clone()));
                    continue;
                }
                let new_lst_amount: u128 = o3.events.iter().filter_map(|e| match e { Ev::Transfer { denom, amount, .. } if *denom == lst => Some(*amount), _ => None }).sum();
                let (uid, want_denom, want_amount, want_recv) = if which_new == 0 { (o3.new_packets[0], sd(), 500u128, staker.clone()) } else { (o3.new_packets[1], lst.clone(), new_lst_amount, n1.clone()) };
                // the other new packet is delivered
                w.outcome(o3.new_packets[1 - which_new], 0);
                let of = w.outcome(uid, fail_kind);
                if !of.ok {
                    viols.push((viol(prop, "rotation.callback_failed", format!("callback of the failed transfer refused: {:?}", of.err)), case.clone()));
                    continue;
                }
                let rec = w.exec(&p20("x"), ExecuteMsg::RecoverPendingIbcTransfers { paginated: None, selected_packets: None, receiver: if which_new == 0 { None } else { Some(n1.clone()) } }, &[]);
                let resent: Vec<(String, u128, String)> = rec.events.iter().filter_map(|e| match e { Ev::Transfer { denom, amount, receiver, .. } => Some((denom.clone(), *amount, receiver.clone())), _ => None }).collect();
                if !rec.ok || resent != vec![(want_denom.clone(), want_amount, want_recv.clone())] {
                    viols.push((
                        viol(prop, "rotation.resent_other_transfer", format!("after the move to {ALT_CHANNEL}, transfer #{} of the new channel ({want_amount} {want_denom} to {want_recv}) failed; the recovery returned ok={} err={:?} and re-sent {:?}", uid - ALT_BASE, rec.ok, rec.err, resent)),
                        case.clone(),
                    ));
                    continue;
                }
                good += 1;
            }
        }
    }
    r.grid("channel rotation: stale records of the old channel x failing transfers of the new one (sequence numbers restart)", n, 2, good, n - good, vec![json!({"old_packets_acknowledged_before_the_move": 0, "failure": "timeout", "failing_new_packet": 1})], viols);
    r.require(good >= 8 || n == 0 || n != good, "the channel-rotation script must complete");
}
