mod acts;
mod c19;
mod common;
mod config_grid;
mod grids;
mod ledger;
mod menu;
mod migrate_grid;
mod own;
mod probe_checks;
mod probes;
mod scen;
mod store_pin;
mod treasury_grid;
mod xcheck;

use std::process::exit;

fn main() {
    mwsim::world::install_quiet_panic_hook();
    let args: Vec<String> = std::env::args().collect();
    if args.len() < 2 {
        eprintln!("usage: mwcheck <C01..C20> [--tier quick|thorough] [--replay file]");
        exit(2);
    }
    if let Err(e) = mwsim::self_tests() {
        println!("MACHINERY-ERROR: self test failed: {e}");
        exit(2);
    }
    let prop = args[1].clone();
    if prop == "--write-store-baseline" {
        exit(store_pin::write_baseline());
    }
    let mut tier = std::env::var("VERIF_TIER").unwrap_or_else(|_| "quick".into());
    let mut replay: Option<String> = None;
    let mut i = 2;
    while i < args.len() {
        match args[i].as_str() {
            "--tier" => {
                tier = args[i + 1].clone();
                i += 1;
            }
            "--replay" => {
                replay = Some(args[i + 1].clone());
                i += 1;
            }
            _ => {}
        }
        i += 1;
    }
    let thorough = tier == "thorough";
    let mut replay_case_key: Option<String> = None;
    if let Some(p) = &replay {
        let body: serde_json::Value = serde_json::from_str(&std::fs::read_to_string(p).expect("replay file")).expect("replay json");
        if body["kind"].as_str() == Some("case") {
            // a grid case is replayed by re-running the (cheap, exhaustive) grid it belongs to
            replay_case_key = body["key"].as_str().map(|s| s.to_string());
            println!("replaying grid case {} by re-running the {} grids", body["key"], prop);
            replay = None;
        }
    }
    let _ = replay_case_key;
    if let Some(p) = replay {
        let body: serde_json::Value = serde_json::from_str(&std::fs::read_to_string(&p).expect("replay file")).expect("replay json");
        let code = match body["kind"].as_str() {
            Some("path") => common::replay_path(&prop, &body, scenarios_for(&prop)),
            Some("own") => own::replay_file(&body),
            _ => {
                println!("MACHINERY-ERROR: unsupported replay kind");
                2
            }
        };
        exit(code);
    }
    let code = match prop.as_str() {
        "C01" | "C02" | "C03" | "C05" | "C06" | "C07" | "C15" => ledger::run(&prop, thorough),
        "C11" => grids::run_c11(thorough),
        "C08" | "C10" | "C16" | "C17" => probe_checks::run(&prop, thorough),
        "C12" => own::run(thorough),
        "C13" => treasury_grid::run(thorough),
        "C14" => config_grid::run(thorough),
        "C18" => migrate_grid::run(thorough),
        "C19" => c19::run(thorough),
        "C04" => grids::run_c04(thorough),
        "C09" => grids::run_c09(thorough),
        _ => {
            println!("MACHINERY-ERROR: unknown property {prop}");
            2
        }
    };
    exit(code);
}

fn scenarios_for(prop: &str) -> Vec<scen::StakingScenario> {
    let mut v = ledger::scenarios(prop, false);
    v.extend(ledger::scenarios(prop, true));
    v.extend(probe_checks::scenarios(prop, false));
    v.extend(probe_checks::scenarios(prop, true));
    if prop == "C19" {
        v.extend(c19::plans(false).into_iter().map(|p| p.sc));
        v.extend(c19::plans(true).into_iter().map(|p| p.sc));
    }
    v
}
