//! Action menus (the alphabets of the scenarios).

use crate::acts::*;
use mwsim::sim::*;
use mwsim::world::*;
use staking::msg::ExecuteMsg;

#[derive(Clone, Copy, Debug, PartialEq)]
pub enum Rel {
    Exact,
    Minus1,
    Half,
    Plus5,
    One,
}

#[derive(Clone, Copy, Debug, PartialEq)]
pub enum Frac {
    All,
    Third,
    Fixed(u128),
}

#[derive(Clone, Debug)]
pub struct MenuOpt {
    pub stakers: Vec<String>,
    pub stake_amts: Vec<u128>,
    /// additionally: u1 stakes with LST delivered over IBC to native user n1
    pub stake_native: bool,
    /// additionally: u1 stakes with LST minted to u3
    pub stake_other: bool,
    /// additionally: u1 stakes with the LST sent over IBC to the staker's own native address, so
    /// that packets of both denoms share one receiver
    pub stake_to_staker: bool,
    pub max_stakes: u32,
    pub unstakers: Vec<String>,
    pub unstake: Vec<Frac>,
    pub rewards: Vec<u128>,
    pub max_rewards: u32,
    pub deliver: Vec<Rel>,
    /// non-exact deliveries cost a deviation
    pub deliver_dev: bool,
    /// offer Withdraw for every (user, batch id 0..=n+1) pair, not only the claimable ones
    pub withdraw_all_pairs: bool,
    pub withdrawers: Vec<String>,
    pub recover_plain: bool,
    pub recover_paginated: bool,
    pub recover_receivers: Vec<Option<String>>,
    /// admin-forced recovery of the refundable packets of the staker (all ids; with a repeated id)
    pub recover_forced: bool,
    /// forced recovery also for the other (receiver, denom) groups, with non-adjacent repeats
    pub recover_forced_groups: bool,
    /// offer SubmitBatch / Withdraw / plain recovery also with a staked-asset coin attached
    pub funded_variants: bool,
    /// the oracle contract may start rejecting posts (deviation)
    pub oracle_faults: bool,
    /// the transfer module answers the next transfer with no reply data / undecodable data (deviation)
    pub reply_faults: bool,
    pub fee_withdraw: Vec<Rel>,
    pub halt_resume: bool,
    pub slashed_resume: bool,
    /// allow holding packets for explicit outcomes (deviation), and which outcomes
    pub holds: bool,
    pub outcomes: Vec<u8>,
    pub ibc_down: bool,
    pub time_boundaries: bool,
    pub max_dev: u8,
    pub max_batches: u64,
    pub max_inflight: usize,
    pub submitters: Vec<String>,
}

impl MenuOpt {
    pub fn base() -> MenuOpt {
        MenuOpt {
            stakers: vec![u(1), u(2)],
            stake_amts: vec![100, 37],
            stake_native: false,
            stake_other: false,
            stake_to_staker: false,
            max_stakes: 3,
            unstakers: vec![u(1), u(2)],
            unstake: vec![Frac::All, Frac::Third],
            rewards: vec![50, 7],
            max_rewards: 2,
            deliver: vec![Rel::Exact],
            deliver_dev: true,
            withdraw_all_pairs: false,
            withdrawers: vec![u(1), u(2)],
            recover_plain: true,
            recover_paginated: false,
            recover_receivers: vec![],
            recover_forced: false,
            recover_forced_groups: false,
            funded_variants: false,
            oracle_faults: false,
            reply_faults: false,
            fee_withdraw: vec![Rel::Exact],
            halt_resume: false,
            slashed_resume: false,
            holds: true,
            outcomes: vec![0, 1, 2],
            ibc_down: false,
            time_boundaries: false,
            max_dev: 1,
            max_batches: 3,
            max_inflight: 2,
            submitters: vec![p20("x")],
        }
    }
}

pub fn rel(r: Rel, exact: u128) -> u128 {
    match r {
        Rel::Exact => exact,
        Rel::Minus1 => exact.saturating_sub(1),
        Rel::Half => exact / 2,
        Rel::Plus5 => exact + 5,
        Rel::One => 1,
    }
}

fn times(s: &Sim, d: u64, boundaries: bool) -> Vec<u64> {
    let now = s.w.time;
    let cand = if boundaries { vec![d.saturating_sub(1), d, d + 1] } else { vec![d] };
    cand.into_iter().filter(|t| *t > now).collect()
}

/// number of successful stakes / rewards so far is bounded through the ghost counters kept in the
/// tags of the world: we use the funds of the users as the natural bound instead.
pub fn std_menu(s: &Sim, o: &MenuOpt) -> Vec<Act> {
    let mut a: Vec<Act> = Vec::new();
    let sdn = sd();
    let lst = s.w.lst_denom();
    let dev_left = s.g.dev < o.max_dev;
    let inflight = s.w.ibc.flight.len();
    let can_hold = o.holds && dev_left && inflight < o.max_inflight;
    let halted = s.m.halted;
    let stakes_done = (s.w.ibc.next_seq - s.g.seed_seq.min(s.w.ibc.next_seq)) as u32; // every stake / reward allocates a sequence: crude activity bound
    let k = &s.w.k;

    // stakes
    if stakes_done <= o.max_stakes + o.max_rewards + 2 {
        for who in &o.stakers {
            for amt in &o.stake_amts {
                if s.w.bal(who, &sdn) >= *amt {
                    let st = stake(who, *amt);
                    if can_hold {
                        a.push(hold(st.clone()));
                    }
                    a.push(st);
                }
            }
        }
        if o.stake_native {
            let st = stake_to(&u(1), o.stake_amts[0], Some(n20(k, "n1")), Some(true), None);
            if can_hold {
                a.push(hold(st.clone()));
            }
            a.push(st);
        }
        if o.stake_other {
            a.push(stake_to(&u(1), o.stake_amts[0], Some(u(3)), None, None));
        }
        if o.stake_to_staker && s.w.bal(&u(1), &sdn) >= o.stake_amts[0] {
            let st = stake_to(&u(1), o.stake_amts[0], Some(n20(k, "staker")), Some(true), None);
            if can_hold {
                a.push(hold(st));
            }
        }
    }
    // unstakes
    if (s.m.batches.len() as u64) <= o.max_batches + s.g.seed_batches {
        for who in &o.unstakers {
            let bal = s.w.bal(who, &lst);
            let mut amts: Vec<u128> = Vec::new();
            for f in &o.unstake {
                let x = match f {
                    Frac::All => bal,
                    Frac::Third => bal / 3,
                    Frac::Fixed(x) => *x,
                };
                if x > 0 && x <= bal && !amts.contains(&x) {
                    amts.push(x);
                }
            }
            for x in amts {
                a.push(unstake(s, who, x));
            }
        }
    }
    // time: deadlines of the pending batch and of submitted batches
    let pd = pending_due(s);
    let mut ts: Vec<u64> = times(s, pd, o.time_boundaries);
    // unbonding deadlines of the oldest and the newest submitted batch
    let subm: Vec<&MBatch> = s.m.batches.values().filter(|b| b.status == MStatus::Submitted).collect();
    for b in subm.first().into_iter().chain(subm.last()) {
        ts.extend(times(s, b.due, o.time_boundaries));
    }
    ts.sort();
    ts.dedup();
    for t in ts {
        a.push(advance(t));
    }
    // submit
    if (s.m.batches.len() as u64) <= o.max_batches + s.g.seed_batches {
        for by in &o.submitters {
            a.push(submit(by));
        }
    }
    // rewards
    if stakes_done <= o.max_stakes + o.max_rewards + 2 {
        for r in &o.rewards {
            let rw = rewards(s, *r);
            if can_hold {
                a.push(hold(rw.clone()));
            }
            a.push(rw);
        }
    }
    // deliveries for the oldest submitted batch
    if let Some(b) = s.m.batches.values().find(|b| b.status == MStatus::Submitted) {
        let exp = b.expected.unwrap_or(0);
        let mut seen: Vec<u128> = vec![];
        for r in &o.deliver {
            let amt = rel(*r, exp);
            if amt == 0 || seen.contains(&amt) {
                continue;
            }
            if *r != Rel::Exact && o.deliver_dev && !dev_left {
                continue;
            }
            seen.push(amt);
            a.push(deliver(s, b.id, amt));
        }
    }
    // withdrawals
    if o.withdraw_all_pairs {
        let maxid = s.m.batches.len() as u64 + 1;
        for who in &o.withdrawers {
            let ids: Vec<u64> = if maxid <= 6 {
                (0..=maxid).collect()
            } else {
                // many batches: the boundary ids, the first/last batch of every status, and the
                // first and last received batch in which this account still has a request
                let mut v: Vec<u64> = vec![0, 1, s.m.pending, maxid];
                for st in [MStatus::Submitted, MStatus::Received] {
                    let of: Vec<u64> = s.m.batches.values().filter(|b| b.status == st).map(|b| b.id).collect();
                    v.extend(of.first());
                    v.extend(of.last());
                }
                let mine: Vec<u64> = s.m.batches.values().filter(|b| b.status == MStatus::Received && b.requests.contains_key(who)).map(|b| b.id).collect();
                v.extend(mine.first());
                v.extend(mine.last());
                v.sort();
                v.dedup();
                v
            };
            for b in ids {
                a.push(withdraw(who, b));
            }
        }
    } else {
        for b in s.m.batches.values() {
            if b.status == MStatus::Received {
                for who in b.requests.keys() {
                    a.push(withdraw(who, b.id));
                }
            }
        }
    }
    // recovery
    let any_refundable = s.refundable().next().is_some();
    if any_refundable {
        if o.recover_plain {
            a.push(recover(&p20("x"), None, None, None));
        }
        if o.recover_paginated {
            a.push(recover(&p20("x"), Some(true), None, None));
        }
        for r in &o.recover_receivers {
            a.push(recover(&p20("x"), None, None, r.clone()));
        }
        if o.recover_forced {
            let staker = n20(k, "staker");
            let ids: Vec<u64> = s.refundable().filter(|p| p.receiver == staker && p.denom == sdn).map(|p| p.seq).collect();
            if !ids.is_empty() {
                a.push(recover(&adm(), None, Some(ids.clone()), None));
                // the same ids with one of them repeated (adjacent and non-adjacent)
                let mut rep = ids.clone();
                rep.push(ids[0]);
                a.push(recover(&adm(), None, Some(rep), None));
                if ids.len() >= 2 {
                    a.push(recover(&adm(), None, Some(vec![ids[0], ids[0], ids[1]]), None));
                }
            }
            if o.recover_forced_groups {
                // every other (receiver, denom) group of refundable packets: all ids, and the shapes
                // [a,b,a] / [b,a,a,b] / [a,a,b] in which a repeated id is not next to its first occurrence
                let mut groups: std::collections::BTreeMap<(String, String), Vec<u64>> = Default::default();
                for p in s.refundable() {
                    if !(p.receiver == staker && p.denom == sdn) {
                        groups.entry((p.receiver.clone(), p.denom.clone())).or_default().push(p.seq);
                    }
                }
                for ((recv, _), ids) in groups.into_iter().take(3) {
                    let rc = Some(recv);
                    a.push(recover(&adm(), None, Some(ids.clone()), rc.clone()));
                    if ids.len() >= 2 {
                        let (x, y) = (ids[0], ids[ids.len() - 1]);
                        a.push(recover(&adm(), None, Some(vec![x, y, x]), rc.clone()));
                        a.push(recover(&adm(), None, Some(vec![y, x, x, y]), rc.clone()));
                    } else {
                        a.push(recover(&adm(), None, Some(vec![ids[0], ids[0]]), rc.clone()));
                    }
                }
            }
        }
    }
    if o.oracle_faults && s.w.ibc.reply_fault == 0 && dev_left && s.w.config().protocol_chain_config.oracle_address.is_some() {
        a.push(Act::ReplyFault { mode: 3 });
    }
    if o.reply_faults || o.oracle_faults {
        if s.w.ibc.reply_fault != 0 {
            a.push(Act::ReplyFault { mode: 0 });
        } else if dev_left && inflight == 0 {
            a.push(Act::ReplyFault { mode: 1 });
        }
    }
    // fee withdrawal
    let st = s.w.state();
    if st.total_fees.u128() > 0 || o.fee_withdraw.len() > 1 {
        let mut seen = vec![];
        for r in &o.fee_withdraw {
            let x = match r {
                Rel::Plus5 => st.total_fees.u128() + 1,
                other => rel(*other, st.total_fees.u128()),
            };
            if !seen.contains(&x) {
                seen.push(x);
                a.push(fee_withdraw(&adm(), x));
            }
        }
    }
    // breaker
    if o.halt_resume {
        if halted {
            a.push(resume(&adm(), st.total_native_token.u128(), st.total_liquid_stake_token.u128(), st.total_reward_amount.u128()));
            if o.slashed_resume && dev_left && st.total_liquid_stake_token.is_zero() && st.total_native_token.is_zero() {
                // staked total without any LST: the next stake sweeps the ownerless stake to fees
                a.push(resume(&adm(), 500, 0, 0));
            }
            // an LST total below what is already queued for unstaking (an admin correcting the books too far)
            let queued = s.m.batches.get(&s.m.pending).map(|b| b.total).unwrap_or(0);
            if o.slashed_resume && dev_left && queued > 1 {
                a.push(resume(&adm(), queued - 1, queued - 1, st.total_reward_amount.u128()));
            }
            if o.slashed_resume && dev_left && st.total_native_token.u128() > 10 {
                a.push(resume(&adm(), st.total_native_token.u128() * 3 / 4, st.total_liquid_stake_token.u128(), st.total_reward_amount.u128()));
            }
        } else {
            a.push(halt(&adm()));
        }
    }
    // outcomes of packets in flight
    for seq in s.w.ibc.flight.keys() {
        for kind in &o.outcomes {
            a.push(Act::Outcome { seq: *seq, kind: *kind });
        }
    }
    // channel down / up
    if o.ibc_down {
        if s.w.ibc.up {
            if dev_left {
                a.push(Act::IbcUp { up: false });
            }
        } else {
            a.push(Act::IbcUp { up: true });
        }
    }
    if o.funded_variants {
        // a message delivered through ibc-hooks always arrives with the transferred coin attached, and any
        // caller may attach coins: the messages that take no payment are also offered with one staked-asset
        // unit in their funds
        let sdn2 = sd();
        let mut extra = vec![];
        for x in &a {
            if let Act::Exec { sender, msg, funds, hold } = x {
                let plain = matches!(msg, ExecuteMsg::SubmitBatch {} | ExecuteMsg::Withdraw { .. }) || matches!(msg, ExecuteMsg::RecoverPendingIbcTransfers { selected_packets: None, .. });
                if plain && funds.is_empty() && s.w.bal(sender, &sdn2) >= 1 {
                    extra.push(Act::Exec { sender: sender.clone(), msg: msg.clone(), funds: vec![(sdn2.clone(), 1)], hold: *hold });
                }
            }
        }
        a.extend(extra);
    }
    a
}
