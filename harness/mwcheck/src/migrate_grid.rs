//! C18 — migrations are version-gated and preserve every value-bearing record.
//! Exhaustive grid of pre-upgrade stores (written with the crate's own legacy types) x stored
//! versions x contract names x migrate messages, raw-storage diff, and post-upgrade recovery
//! inside the chain simulator.

use crate::acts::*;
use crate::common::Runner;
use cosmwasm_std::{Addr, BlockInfo, ContractInfo, DepsMut, Env, QuerierWrapper, Timestamp, TransactionInfo, Uint128};
use mwsim::explore::{viol, Violation};
use mwsim::kv::{Kv, NoQuerier, SimApi};
use mwsim::sim::*;
use mwsim::world::*;
use rayon::prelude::*;
use serde_json::{json, Value};
use staking::migrations::states::{v0_4_18, v0_4_20, v1_0_0};
use staking::msg::MigrateMsg;
use staking::state::ibc::PacketLifecycleStatus as PS;

type V = Vec<(Violation, Value)>;

fn env() -> Env {
    Env {
        block: BlockInfo { height: 9, time: Timestamp::from_seconds(T0 + 5000), chain_id: "sim-1".into() },
        transaction: Some(TransactionInfo { index: 0 }),
        contract: ContractInfo { address: Addr::unchecked(contract_addr()) },
    }
}

/// call the migrate entry point directly on the store (no runtime rollback)
pub(crate) fn migrate_raw(kv: &mut Kv, msg: MigrateMsg) -> Result<(), String> {
    let api = SimApi { prefix: PROTO_PREFIX };
    let q = NoQuerier;
    let deps = DepsMut { storage: kv, api: &api, querier: QuerierWrapper::new(&q) };
    match guarded(|| staking::contract::migrate(deps, env(), msg).map_err(|e| e.to_string())) {
        Err(_) => Err("PANIC".into()),
        Ok(Err(e)) => Err(e),
        Ok(Ok(_)) => Ok(()),
    }
}

fn statuses() -> [PS; 4] {
    [PS::Sent, PS::AckSuccess, PS::AckFailure, PS::TimedOut]
}

#[derive(Clone, Debug)]
struct Legacy {
    packets: Vec<(u64, u64, u128, PS)>, // key, sequence, amount, status
    replies: Vec<(u64, u128)>,
}

fn legacy_stores() -> Vec<Legacy> {
    let keys = [1u64, 2, 5];
    let mut out = vec![];
    for mask in 0u32..8 {
        let ks: Vec<u64> = keys.iter().enumerate().filter(|(i, _)| mask & (1 << i) != 0).map(|(_, k)| *k).collect();
        let n = ks.len();
        let combos = 4usize.pow(n as u32);
        for c in 0..combos {
            for shifted in [false, true] {
                if n == 0 && shifted {
                    continue;
                }
                let mut pk = vec![];
                for (i, k) in ks.iter().enumerate() {
                    let st = statuses()[(c / 4usize.pow(i as u32)) % 4].clone();
                    pk.push((*k, if shifted { *k + 100 } else { *k }, 10 + 7 * *k as u128, st));
                }
                for nr in 0..3usize {
                    let replies: Vec<(u64, u128)> = (0..nr).map(|i| (1_700_000_000_000_000_000 + i as u64, 33 + i as u128)).collect();
                    out.push(Legacy { packets: pk.clone(), replies });
                }
            }
        }
    }
    // larger stores: more records than any page size a migration might use, consecutive keys,
    // amounts beyond 64 bits, keys beyond 32 bits
    for n in [11u64, 12, 25, 40, 101, 129, 250] {
        let pk: Vec<(u64, u64, u128, PS)> = (1..=n).map(|k| (k, k, if k % 5 == 0 { (1u128 << 100) + k as u128 } else { 10 + 7 * k as u128 }, statuses()[(k % 4) as usize].clone())).collect();
        let replies: Vec<(u64, u128)> = (0..(if n > 100 { n / 2 + 1 } else { n.min(13) })).map(|i| (1_700_000_000_000_000_000 + i, 33 + i as u128)).collect();
        out.push(Legacy { packets: pk, replies });
    }
    // (a sequence of u64::MAX is not reachable on a channel and would overflow the reply id of the next
    // recovery; the largest key used is 2^63 + 11)
    out.push(Legacy { packets: vec![(1, 1, 5, PS::TimedOut), ((1 << 32) + 5, (1 << 32) + 5, 6, PS::AckFailure), ((1 << 63) + 11, (1 << 63) + 11, 7, PS::Sent)], replies: vec![((1 << 40) + 3, 9)] });
    out
}

/// rewrite a reachable (current-layout) store into the 1.0.0 layout
fn to_v1_0_0(base: &Kv, l: &Legacy, version: &str, name: &str) -> Kv {
    let mut kv = base.clone();
    let cur: Vec<u64> = staking::state::INFLIGHT_PACKETS.keys(&kv, None, None, cosmwasm_std::Order::Ascending).filter_map(|k| k.ok()).collect();
    for k in cur {
        staking::state::INFLIGHT_PACKETS.remove(&mut kv, k);
    }
    let cur: Vec<u64> = staking::state::IBC_WAITING_FOR_REPLY.keys(&kv, None, None, cosmwasm_std::Order::Ascending).filter_map(|k| k.ok()).collect();
    for k in cur {
        staking::state::IBC_WAITING_FOR_REPLY.remove(&mut kv, k);
    }
    for (key, seq, amt, st) in &l.packets {
        v1_0_0::INFLIGHT_PACKETS.save(&mut kv, *key, &v1_0_0::IBCTransfer { sequence: *seq, amount: *amt, status: st.clone() }).unwrap();
    }
    for (key, amt) in &l.replies {
        v1_0_0::IBC_WAITING_FOR_REPLY.save(&mut kv, *key, &v1_0_0::IbcWaitingForReply { amount: *amt }).unwrap();
    }
    cw2::set_contract_version(&mut kv, name, version).unwrap();
    kv
}

fn diff_keys(a: &Kv, b: &Kv) -> Vec<Vec<u8>> {
    let mut keys: Vec<&Vec<u8>> = a.m.keys().chain(b.m.keys()).collect();
    keys.sort();
    keys.dedup();
    keys.into_iter().filter(|k| a.m.get(*k) != b.m.get(*k)).cloned().collect()
}

fn contains(h: &[u8], n: &[u8]) -> bool {
    h.windows(n.len()).any(|w| w == n)
}

fn all_msgs() -> Vec<(&'static str, MigrateMsg)> {
    vec![
        ("v0_4_18_to_v0_4_20", MigrateMsg::V0_4_18ToV0_4_20 { send_fees_to_treasury: true }),
        (
            "v0_4_20_to_v1_0_0",
            MigrateMsg::V0_4_20ToV1_0_0 {
                native_account_address_prefix: "celestia".into(),
                native_validator_address_prefix: "celestiavaloper".into(),
                native_token_denom: "utia".into(),
                protocol_account_address_prefix: "osmo".into(),
            },
        ),
        ("v1_0_0_to_v1_1_0", MigrateMsg::V1_0_0ToV1_1_0 {}),
    ]
}

// includes versions whose string order and numeric order disagree (1.10.0 vs 1.9.0, 0.10.0, 0.4.100, 0.4.3)
const VERSIONS: [&str; 17] = ["0.4.18", "0.4.20", "1.0.0", "1.0.1", "1.1.0", "1.2.0", "0.9.9", "", "garbage", "1.0.0-rc1", "01.0.0", "1.10.0", "0.10.0", "0.4.100", "0.4.3", "1.0.00", "10.0.0"];
const NAMES: [&str; 4] = ["staking", "treasury", "crates.io:staking", ""];

fn v110_grid(r: &mut Runner, thorough: bool) {
    let k = K::k0();
    let mut bases: Vec<(&str, Sim)> = vec![("received", seed_received(&k))];
    // the staker configured in its upper-case spelling (valid bech32, stored as given): "the staker as receiver"
    // means that string
    if let Some(s) = try_seed(|| {
        let mut nc = instantiate_msg(&k).native_chain_config;
        nc.staker_address = nc.staker_address.to_uppercase();
        Script { s: seed_received(&k), strict: true, dead: false }
            .run(exec(&adm(), staking::msg::ExecuteMsg::UpdateConfig { native_chain_config: Some(nc), protocol_chain_config: None, protocol_fee_config: None, monitors: None, batch_period: None }, vec![]))
            .done()
    }) {
        if s.w.config().native_chain_config.staker_address.as_str().chars().any(|c| c.is_ascii_uppercase()) {
            bases.push(("received_upper_case_staker", s));
        }
    }
    if thorough {
        bases.push(("rate_up", seed_rate_up(&k)));
        bases.push(("queued_k2", seed_queued(&K::k2())));
    }
    let stores = legacy_stores();
    let mut n = 0u64;
    let mut acc = 0u64;
    let mut viols: V = vec![];
    let mut samples = vec![];
    for (bname, base) in &bases {
        let cfg = base.w.config();
        let denom = cfg.protocol_chain_config.ibc_token_denom.clone();
        let staker = cfg.native_chain_config.staker_address.to_string();
        let res: Vec<(u64, u64, Vec<(Violation, Value)>)> = stores
            .par_iter()
            .map(|l| {
                let mut n = 0u64;
                let mut acc = 0u64;
                let mut vs: V = vec![];
                for ver in VERSIONS {
                    for name in NAMES {
                        let pre = to_v1_0_0(&base.w.kv, l, ver, name);
                        for (mname, msg) in all_msgs() {
                            let mut kv = pre.clone();
                            let res = migrate_raw(&mut kv, msg);
                            n += 1;
                            let case = json!({"base": bname, "packets": l.packets.iter().map(|p| json!([p.0, p.1, p.2.to_string(), format!("{:?}", p.3)])).collect::<Vec<_>>(), "replies": l.replies.len(), "version": ver, "name": name, "msg": mname});
                            let should = name == "staking" && ver == "1.0.0" && mname == "v1_0_0_to_v1_1_0";
                            match res {
                                Err(e) => {
                                    if e == "PANIC" {
                                        vs.push((viol("C18", "migrate.panic", format!("migrate {mname} from {ver:?}/{name:?} panicked")), case));
                                    } else if should {
                                        vs.push((viol("C18", "migrate.v1_1_0.refused_wrongly", format!("1.0.0 -> 1.1.0 refused: {e}")), case));
                                    } else if kv != pre {
                                        vs.push((viol("C18", "migrate.refusal_changed_storage", format!("refused migration ({e}) changed keys {:?}", diff_keys(&pre, &kv).iter().map(|k| String::from_utf8_lossy(k).to_string()).collect::<Vec<_>>())), case));
                                    }
                                }
                                Ok(()) => {
                                    acc += 1;
                                    if !should {
                                        vs.push((viol("C18", "migrate.accepted_wrongly", format!("migrate {mname} accepted from version {ver:?} name {name:?}")), case));
                                        continue;
                                    }
                                    // only the two packet maps and contract_info are touched
                                    let touched = diff_keys(&pre, &kv);
                                    let foreign: Vec<String> = touched
                                        .iter()
                                        .filter(|k| !(contains(k, b"inflight") || contains(k, b"ibc_waiting_for_reply") || k.as_slice() == b"contract_info"))
                                        .map(|k| String::from_utf8_lossy(k).to_string())
                                        .collect();
                                    if !foreign.is_empty() {
                                        vs.push((viol("C18", "migrate.v1_1_0.touched_other_data", format!("migration changed {:?}", foreign)), case.clone()));
                                    }
                                    let ver_after = cw2::get_contract_version(&kv).map(|v| (v.contract, v.version));
                                    if ver_after.as_ref().ok() != Some(&("staking".to_string(), "1.1.0".to_string())) {
                                        vs.push((viol("C18", "migrate.v1_1_0.version_not_recorded", format!("contract_info after migration: {:?}", ver_after)), case.clone()));
                                    }
                                    let got: Vec<(u64, u64, u128, String, String, String)> = staking::state::INFLIGHT_PACKETS
                                        .range(&kv, None, None, cosmwasm_std::Order::Ascending)
                                        .filter_map(|x| x.ok())
                                        .map(|(k, p)| (k, p.sequence, p.amount.amount.u128(), p.amount.denom, p.receiver, format!("{:?}", p.status)))
                                        .collect();
                                    let all_raw = staking::state::INFLIGHT_PACKETS.range_raw(&kv, None, None, cosmwasm_std::Order::Ascending).count();
                                    let want: Vec<(u64, u64, u128, String, String, String)> = l.packets.iter().map(|(k, s, a, st)| (*k, *s, *a, denom.clone(), staker.clone(), format!("{:?}", st))).collect();
                                    if got != want || all_raw != want.len() {
                                        vs.push((viol("C18", "migrate.v1_1_0.packets", format!("packets after migration {:?}, expected {:?}", got, want)), case.clone()));
                                    }
                                    let gotr: Vec<(u64, u128, String, String)> = staking::state::IBC_WAITING_FOR_REPLY
                                        .range(&kv, None, None, cosmwasm_std::Order::Ascending)
                                        .filter_map(|x| x.ok())
                                        .map(|(k, p)| (k, p.amount.amount.u128(), p.amount.denom, p.receiver))
                                        .collect();
                                    let rraw = staking::state::IBC_WAITING_FOR_REPLY.range_raw(&kv, None, None, cosmwasm_std::Order::Ascending).count();
                                    let wantr: Vec<(u64, u128, String, String)> = l.replies.iter().map(|(k, a)| (*k, *a, denom.clone(), staker.clone())).collect();
                                    if gotr != wantr || rraw != wantr.len() {
                                        vs.push((viol("C18", "migrate.v1_1_0.pending_replies", format!("pending replies after migration {:?}, expected {:?}", gotr, wantr)), case.clone()));
                                    }
                                    // a second migration must be refused (same version)
                                    let mut kv2 = kv.clone();
                                    if migrate_raw(&mut kv2, MigrateMsg::V1_0_0ToV1_1_0 {}).is_ok() {
                                        vs.push((viol("C18", "migrate.v1_1_0.repeatable", "the migration can be applied twice".into()), case.clone()));
                                    }
                                    // refundable value recoverable before is recoverable after (stores whose key is the sequence)
                                    if l.packets.iter().all(|p| p.0 == p.1) {
                                        let refundable: u128 = l.packets.iter().filter(|p| matches!(p.3, PS::AckFailure | PS::TimedOut)).map(|p| p.2).sum();
                                        let mut w = base.w.clone();
                                        w.kv = kv.clone();
                                        w.credit(&contract_addr(), &denom, refundable);
                                        let out = w.exec(&p20("x"), staking::msg::ExecuteMsg::RecoverPendingIbcTransfers { paginated: None, selected_packets: None, receiver: None }, &[]);
                                        let sent: Vec<u128> = out.events.iter().filter_map(|e| match e { Ev::Transfer { amount, denom: d, receiver, .. } if *d == denom && *receiver == staker => Some(*amount), _ => None }).collect();
                                        if refundable > 0 && (!out.ok || sent != vec![refundable]) {
                                            vs.push((viol("C18", "migrate.v1_1_0.recovery_after", format!("refundable {refundable} before the upgrade; recovery after it: ok={} err={:?} sent {:?}", out.ok, out.err, sent)), case.clone()));
                                        }
                                        if refundable == 0 && out.ok {
                                            vs.push((viol("C18", "migrate.v1_1_0.recovery_after", "recovery succeeded although nothing was refundable".into()), case.clone()));
                                        }
                                    }
                                }
                            }
                        }
                    }
                }
                vs.truncate(3);
                (n, acc, vs)
            })
            .collect();
        for (a, b, v) in res {
            n += a;
            acc += b;
            viols.extend(v);
        }
        samples.push(json!({"base": bname, "legacy_store_shapes": stores.len(), "versions": VERSIONS, "names": NAMES}));
    }
    r.grid("c18-v1_0_0-stores-x-versions-x-names-x-messages", n, 2, acc, n - acc, samples, viols);
    r.require(acc as usize >= stores.len(), "C18: the 1.0.0 -> 1.1.0 path must succeed on every legacy store shape");
}

pub(crate) fn old_config_0_4_18(k: &K, monitors: Option<bool>, oracle: bool) -> v0_4_18::Config {
    v0_4_18::Config {
        native_token_denom: staked_denom(),
        liquid_stake_token_denom: format!("factory/{}/umilkTIA", contract_addr()),
        treasury_address: Addr::unchecked(p20("tre")),
        operators: Some(vec![Addr::unchecked(p20("op"))]),
        monitors: monitors.map(|full| if full { vec![Addr::unchecked(p20("mon")), Addr::unchecked(p20("mon2"))] } else { vec![] }),
        validators: vec![Addr::unchecked(val(k, "1")), Addr::unchecked(val(k, "2"))],
        batch_period: 86_400,
        unbonding_period: 1_209_600,
        protocol_fee_config: v0_4_18::ProtocolFeeConfig { dao_treasury_fee: Uint128::new(10_000) },
        multisig_address_config: v0_4_18::MultisigAddressConfig { staker_address: Addr::unchecked(n20(k, "staker")), reward_collector_address: Addr::unchecked(n20(k, "collector")) },
        minimum_liquid_stake_amount: Uint128::new(1_000),
        ibc_channel_id: "channel-123".into(),
        stopped: false,
        oracle_contract_address: Some(Addr::unchecked(p32("old-oracle"))),
        oracle_contract_address_v2: None,
        oracle_address: if oracle { Some(Addr::unchecked(oracle_addr())) } else { None },
    }
}

fn legacy_paths_grid(r: &mut Runner) {
    let k = K::k0();
    let base = seed_received(&k).w.kv;
    let mut n = 0u64;
    let mut acc = 0u64;
    let mut viols: V = vec![];
    // ---------------- 0.4.18 -> 0.4.20
    for monitors in [None, Some(false), Some(true)] {
        for oracle in [false, true] {
            for stopped in [false, true] {
                for flag in [false, true] {
                    for ver in VERSIONS {
                        for name in NAMES {
                            let mut old = old_config_0_4_18(&k, monitors, oracle);
                            old.stopped = stopped;
                            let mut pre = base.clone();
                            v0_4_18::CONFIG.save(&mut pre, &old).unwrap();
                            cw2::set_contract_version(&mut pre, name, ver).unwrap();
                            let mut kv = pre.clone();
                            let res = migrate_raw(&mut kv, MigrateMsg::V0_4_18ToV0_4_20 { send_fees_to_treasury: flag });
                            n += 1;
                            let should = name == "staking" && ver == "0.4.18";
                            let case = json!({"path": "0.4.18->0.4.20", "monitors": monitors, "oracle": oracle, "stopped": stopped, "flag": flag, "version": ver, "name": name});
                            match res {
                                Err(e) => {
                                    if should || e == "PANIC" {
                                        viols.push((viol("C18", "migrate.v0_4_20.refused_wrongly", format!("0.4.18 -> 0.4.20 refused: {e}")), case));
                                    } else if kv != pre {
                                        viols.push((viol("C18", "migrate.refusal_changed_storage", format!("refused migration ({e}) changed storage")), case));
                                    }
                                }
                                Ok(()) => {
                                    acc += 1;
                                    if !should {
                                        viols.push((viol("C18", "migrate.accepted_wrongly", format!("0.4.18 path accepted from {ver:?}/{name:?}")), case));
                                        continue;
                                    }
                                    let new = v0_4_20::CONFIG.load(&kv);
                                    let ok = match &new {
                                        Ok(c) => {
                                            c.native_token_denom == old.native_token_denom
                                                && c.liquid_stake_token_denom == old.liquid_stake_token_denom
                                                && c.treasury_address == old.treasury_address
                                                && c.monitors == old.monitors
                                                && c.validators == old.validators
                                                && c.batch_period == old.batch_period
                                                && c.unbonding_period == old.unbonding_period
                                                && c.protocol_fee_config == old.protocol_fee_config
                                                && c.multisig_address_config == old.multisig_address_config
                                                && c.minimum_liquid_stake_amount == old.minimum_liquid_stake_amount
                                                && c.ibc_channel_id == old.ibc_channel_id
                                                && c.stopped == old.stopped
                                                && c.oracle_address == old.oracle_address
                                                && c.send_fees_to_treasury == flag
                                        }
                                        Err(_) => false,
                                    };
                                    let touched: Vec<String> = diff_keys(&pre, &kv).iter().map(|k| String::from_utf8_lossy(k).to_string()).collect();
                                    if !ok || touched.iter().any(|k| k != "config" && k != "contract_info") {
                                        viols.push((viol("C18", "migrate.v0_4_20.translation", format!("translated config {:?}; touched keys {:?}", new, touched)), case));
                                    }
                                }
                            }
                        }
                    }
                }
            }
        }
    }
    // ---------------- 0.4.20 -> 1.0.0
    let arg_sets: Vec<(&str, &str, &str, &str, bool)> = vec![
        ("celestia", "celestiavaloper", "utia", "osmo", true),
        ("CELESTIA", "celestiavaloper", "utia", "osmo", false), // normalised to lower case, then the stored addresses still match
        ("osmo", "celestiavaloper", "utia", "osmo", false),
        ("celestia", "celestia", "utia", "osmo", false),
        ("celestia", "celestiavaloper", "ut1a", "osmo", false),
        ("celestia", "celestiavaloper", "uti", "osmo", false),
        ("celestia", "celestiavaloper", "utia", "celestia", false),
        ("", "celestiavaloper", "utia", "osmo", false),
        ("celestia", "celestiavaloper", "utia", "Osmo", false),
    ];
    for monitors in [None, Some(false), Some(true)] {
        for oracle in [false, true] {
            for send in [false, true] {
                for stopped in [false, true] {
                    for (na, nv, nd, pa, args_ok) in &arg_sets {
                        for ver in VERSIONS {
                            for name in ["staking", "treasury"] {
                                let o18 = old_config_0_4_18(&k, monitors, oracle);
                                let old = v0_4_20::Config {
                                    native_token_denom: o18.native_token_denom.clone(),
                                    liquid_stake_token_denom: o18.liquid_stake_token_denom.clone(),
                                    treasury_address: o18.treasury_address.clone(),
                                    monitors: o18.monitors.clone(),
                                    validators: o18.validators.clone(),
                                    batch_period: o18.batch_period,
                                    unbonding_period: o18.unbonding_period,
                                    protocol_fee_config: o18.protocol_fee_config.clone(),
                                    multisig_address_config: o18.multisig_address_config.clone(),
                                    minimum_liquid_stake_amount: o18.minimum_liquid_stake_amount,
                                    ibc_channel_id: o18.ibc_channel_id.clone(),
                                    stopped,
                                    oracle_address: o18.oracle_address.clone(),
                                    send_fees_to_treasury: send,
                                };
                                let mut pre = base.clone();
                                v0_4_20::CONFIG.save(&mut pre, &old).unwrap();
                                cw2::set_contract_version(&mut pre, name, ver).unwrap();
                                let mut kv = pre.clone();
                                let res = migrate_raw(
                                    &mut kv,
                                    MigrateMsg::V0_4_20ToV1_0_0 {
                                        native_account_address_prefix: na.to_string(),
                                        native_validator_address_prefix: nv.to_string(),
                                        native_token_denom: nd.to_string(),
                                        protocol_account_address_prefix: pa.to_string(),
                                    },
                                );
                                n += 1;
                                let gate = name == "staking" && ver == "0.4.20";
                                // upper-case prefix "CELESTIA" is normalised to "celestia" and then matches the stored addresses
                                let args_good = *args_ok || *na == "CELESTIA";
                                let case = json!({"path": "0.4.20->1.0.0", "monitors": monitors, "oracle": oracle, "send_fees": send, "stopped": stopped, "args": [na, nv, nd, pa], "version": ver, "name": name});
                                match res {
                                    Err(e) => {
                                        if e == "PANIC" || (gate && args_good) {
                                            viols.push((viol("C18", "migrate.v1_0_0.refused_wrongly", format!("0.4.20 -> 1.0.0 refused: {e}")), case));
                                        } else if kv != pre {
                                            viols.push((viol("C18", "migrate.refusal_changed_storage", format!("refused migration ({e}) changed storage")), case));
                                        }
                                    }
                                    Ok(()) => {
                                        acc += 1;
                                        if !gate {
                                            viols.push((viol("C18", "migrate.accepted_wrongly", format!("0.4.20 path accepted from {ver:?}/{name:?}")), case));
                                            continue;
                                        }
                                        let new = staking::state::CONFIG.load(&kv);
                                        let ok = match &new {
                                            Ok(c) => {
                                                let n_ = &c.native_chain_config;
                                                let p = &c.protocol_chain_config;
                                                n_.account_address_prefix == na.to_lowercase()
                                                    && n_.validator_address_prefix == nv.to_lowercase()
                                                    && n_.token_denom == *nd
                                                    && n_.validators == old.validators
                                                    && n_.unbonding_period == old.unbonding_period
                                                    && n_.staker_address == old.multisig_address_config.staker_address
                                                    && n_.reward_collector_address == old.multisig_address_config.reward_collector_address
                                                    && p.account_address_prefix == pa.to_lowercase()
                                                    && p.ibc_channel_id == old.ibc_channel_id
                                                    && p.ibc_token_denom == old.native_token_denom
                                                    && p.minimum_liquid_stake_amount == old.minimum_liquid_stake_amount
                                                    && p.oracle_address == old.oracle_address
                                                    && c.protocol_fee_config.dao_treasury_fee == old.protocol_fee_config.dao_treasury_fee
                                                    && c.protocol_fee_config.treasury_address == if send { Some(old.treasury_address.clone()) } else { None }
                                                    && c.liquid_stake_token_denom == old.liquid_stake_token_denom
                                                    && c.batch_period == old.batch_period
                                                    && c.monitors == old.monitors.clone().unwrap_or_default()
                                                    && c.stopped == old.stopped
                                            }
                                            Err(_) => false,
                                        };
                                        let touched: Vec<String> = diff_keys(&pre, &kv).iter().map(|k| String::from_utf8_lossy(k).to_string()).collect();
                                        // (whether the supplied prefixes are accepted is not part of the statement; only the translation is judged)
                                        if !ok || touched.iter().any(|k| k != "config" && k != "contract_info") {
                                            viols.push((viol("C18", "migrate.v1_0_0.translation", format!("translated config {:?}; touched keys {:?}", new, touched)), case));
                                        }
                                    }
                                }
                            }
                        }
                    }
                }
            }
        }
    }
    r.grid("c18-legacy-paths-0.4.18-and-0.4.20", n, 2, acc, n - acc, vec![json!({"path": "0.4.20->1.0.0", "args": ["celestia", "celestiavaloper", "utia", "osmo"], "version": "0.4.20", "name": "staking", "accepted": true})], viols);
    r.require(acc >= 24, "C18 legacy paths must succeed from their exact source versions");
}

fn treasury_grid(r: &mut Runner) {
    let mut n = 0u64;
    let mut acc = 0u64;
    let mut viols: V = vec![];
    let base = crate::own::treasury_kv(&p20("adm"), &p20("trader"), vec![]);
    for ver in ["0.4.18", "0.4.19", "0.4.20", "0.4.21", "1.0.0", "0.1.0", "", "garbage", "0.4.20-rc1", "00.4.1", "0.10.0", "0.4.100", "0.4.3", "0.4.9", "0.3.99", "10.0.0", "0.4.2"] {
        for name in ["treasury", "staking", "crates.io:treasury", ""] {
            let mut pre = base.clone();
            cw2::set_contract_version(&mut pre, name, ver).unwrap();
            let mut kv = pre.clone();
            let api = SimApi { prefix: PROTO_PREFIX };
            let q = NoQuerier;
            let res = {
                let deps = DepsMut { storage: &mut kv, api: &api, querier: QuerierWrapper::new(&q) };
                guarded(|| treasury::contract::migrate(deps, env(), treasury::msg::MigrateMsg {}))
            };
            n += 1;
            // strictly older than 0.4.20 in semver order
            let newer = matches!(ver, "0.4.18" | "0.4.19" | "0.1.0" | "0.4.20-rc1" | "0.4.3" | "0.4.9" | "0.3.99" | "0.4.2");
            let should = name == "treasury" && newer;
            let case = json!({"contract": "treasury", "version": ver, "name": name});
            match res {
                Err(_) => viols.push((viol("C18", "treasury.migrate.panic", "treasury migrate panicked".into()), case)),
                Ok(Err(e)) => {
                    if should {
                        viols.push((viol("C18", "treasury.migrate.refused_wrongly", format!("treasury migration from {ver} refused: {e}")), case));
                    } else if kv != pre {
                        viols.push((viol("C18", "treasury.migrate.refusal_changed_storage", "refused treasury migration changed storage".into()), case));
                    }
                }
                Ok(Ok(_)) => {
                    acc += 1;
                    if !should {
                        viols.push((viol("C18", "treasury.migrate.accepted_wrongly", format!("treasury migration accepted from {ver:?}/{name:?}")), case));
                    }
                }
            }
        }
    }
    r.grid("c18-treasury-version-x-name", n, 2, acc, n - acc, vec![json!({"version": "0.4.18", "name": "treasury", "accepted": true})], viols);
    r.require(acc >= 3, "C18 treasury grid must contain accepted migrations");
}

pub fn run(thorough: bool) -> i32 {
    let mut r = Runner::new("C18", if thorough { "thorough" } else { "quick" });
    r.assumptions.push("pre-upgrade stores are written with the crate's own legacy types (migrations::states::*); a migration is one atomic transaction, its only crash points are its error exits, all enumerated by the refusal grid".into());
    v110_grid(&mut r, thorough);
    legacy_paths_grid(&mut r);
    treasury_grid(&mut r);
    r.assumptions.push("deployed bytes: /verif/baselines/staking-stores.json holds byte-exact 1.0.0- and 1.1.0-layout stores written by the pinned tree; after the migration the tree under test must read and operate them like stores it wrote itself".into());
    crate::store_pin::run_pin(&mut r, "C18");
    r.finish()
}
