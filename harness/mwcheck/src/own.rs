//! C12 — two-step, seven-day time-locked admin handover, staking and treasury contracts.
//! Complete BFS over nominate / revoke / accept by four principals with deadline-boundary time
//! moves, in lock-step with a three-variable reference machine.

use crate::common::Runner;
use cosmwasm_std::{Addr, BlockInfo, ContractInfo, DepsMut, Env, MessageInfo, QuerierWrapper, Timestamp, TransactionInfo};
use mwsim::explore::{explore, replay, viol, Limits, Scenario, StateObs, Step};
use mwsim::kv::{Kv, NoQuerier, SimApi};
use mwsim::world::*;
use serde::{Deserialize, Serialize};
use serde_json::json;

pub const WEEK: u64 = 604_800;

#[derive(Clone, Copy, Debug, Hash, PartialEq, Eq, Serialize, Deserialize)]
pub enum Which {
    Staking,
    Treasury,
}

#[derive(Clone, Debug, Hash, PartialEq, Eq)]
pub struct OwnState {
    pub which: Which,
    pub kv: Kv,
    pub time: u64,
    /// sub-second part of the block time (the reference machine works in whole seconds, like the statement)
    pub nanos: u32,
    /// index of the chain id the history runs under
    pub chain: u8,
    // reference machine
    pub admin: String,
    pub nominee: Option<String>,
    pub earliest: Option<u64>,
    pub handovers: u8,
    /// unrelated admin operations interleaved so far (bounded)
    pub noise: u8,
}

#[derive(Clone, Debug, Serialize, Deserialize, PartialEq)]
pub enum OwnAct {
    Transfer { by: String, to: String },
    Revoke { by: String },
    Accept { by: String },
    Advance {
        to: u64,
        #[serde(default)]
        nanos: u32,
    },
    /// an unrelated admin-only operation by the current admin (halt, resume, config update, spend):
    /// it must not disturb a pending handover
    Noise { kind: u8 },
}

pub fn principals() -> Vec<String> {
    vec![p20("adm"), p32("B-contract"), p20("C"), p20("D")]
}

thread_local! {
    /// sub-second part of the block time of the step being executed (block headers carry nanoseconds)
    static NANOS: std::cell::Cell<u32> = const { std::cell::Cell::new(0) };
    /// which chain the step runs on (index into CHAIN_IDS)
    static CHAIN: std::cell::Cell<u8> = const { std::cell::Cell::new(0) };
}
/// the rest of the environment is part of the input too: the simulator's own chain id, the testnet and the
/// main net of the deployment scripts, an Initia rollup
const CHAIN_IDS: [&str; 4] = ["sim-1", "osmo-test-5", "osmosis-1", "minimove-1"];

fn env(time: u64) -> Env {
    let nanos = NANOS.with(|c| c.get());
    Env {
        block: BlockInfo { height: 1, time: Timestamp::from_nanos(time * 1_000_000_000 + nanos as u64), chain_id: CHAIN_IDS[CHAIN.with(|c| c.get()) as usize % CHAIN_IDS.len()].into() },
        transaction: Some(TransactionInfo { index: TX_INDEX }),
        contract: ContractInfo { address: Addr::unchecked(if true { contract_addr() } else { String::new() }) },
    }
}

/// run one execute call on a copy of the storage; Ok(new kv) / Err(message or PANIC)
fn call(which: Which, kv: &Kv, time: u64, sender: &str, act: &OwnAct) -> Result<Kv, String> {
    let mut kv2 = kv.clone();
    let api = SimApi { prefix: PROTO_PREFIX };
    let q = NoQuerier;
    let info = MessageInfo { sender: Addr::unchecked(sender), funds: vec![] };
    let r = match which {
        Which::Staking => {
            use staking::msg::ExecuteMsg as M;
            let msg = match act {
                OwnAct::Transfer { to, .. } => M::TransferOwnership { new_owner: to.clone() },
                OwnAct::Revoke { .. } => M::RevokeOwnershipTransfer {},
                OwnAct::Accept { .. } => M::AcceptOwnership {},
                OwnAct::Advance { .. } | OwnAct::Noise { .. } => unreachable!(),
            };
            let deps = DepsMut { storage: &mut kv2, api: &api, querier: QuerierWrapper::new(&q) };
            guarded(|| staking::contract::execute(deps, env(time), info, msg).map(|r| r.messages.len()).map_err(|e| e.to_string()))
        }
        Which::Treasury => {
            use treasury::msg::ExecuteMsg as M;
            let msg = match act {
                OwnAct::Transfer { to, .. } => M::TransferOwnership { new_owner: to.clone() },
                OwnAct::Revoke { .. } => M::RevokeOwnershipTransfer {},
                OwnAct::Accept { .. } => M::AcceptOwnership {},
                OwnAct::Advance { .. } | OwnAct::Noise { .. } => unreachable!(),
            };
            let deps = DepsMut { storage: &mut kv2, api: &api, querier: QuerierWrapper::new(&q) };
            guarded(|| treasury::contract::execute(deps, env(time), info, msg).map(|r| r.messages.len()).map_err(|e| e.to_string()))
        }
    };
    match r {
        Err(_) => Err("PANIC".into()),
        Ok(Err(e)) => Err(e),
        Ok(Ok(_)) => Ok(kv2),
    }
}

/// unrelated admin operations (they emit messages that are not dispatched here; only storage matters)
fn noise_call(which: Which, kv: &Kv, time: u64, admin: &str, kind: u8) -> Result<Kv, String> {
    let mut kv2 = kv.clone();
    if kind == 3 {
        // a code upgrade during the handover: the store still carries the previous version and the new
        // code's migrate entry point runs (a pending nomination and its clock must survive it)
        let api = SimApi { prefix: PROTO_PREFIX };
        let q = NoQuerier;
        let ok = match which {
            Which::Staking => {
                cw2::set_contract_version(&mut kv2, "staking", "1.0.0").map_err(|e| e.to_string())?;
                let deps = DepsMut { storage: &mut kv2, api: &api, querier: QuerierWrapper::new(&q) };
                matches!(guarded(|| staking::contract::migrate(deps, env(time), staking::msg::MigrateMsg::V1_0_0ToV1_1_0 {})), Ok(Ok(_)))
            }
            Which::Treasury => {
                let cur = cw2::get_contract_version(&kv2).map_err(|e| e.to_string())?;
                cw2::set_contract_version(&mut kv2, cur.contract, "0.0.1").map_err(|e| e.to_string())?;
                let deps = DepsMut { storage: &mut kv2, api: &api, querier: QuerierWrapper::new(&q) };
                matches!(guarded(|| treasury::contract::migrate(deps, env(time), treasury::msg::MigrateMsg {})), Ok(Ok(_)))
            }
        };
        return if ok { Ok(kv2) } else { Err("refused".into()) };
    }
    let api = SimApi { prefix: PROTO_PREFIX };
    let q = NoQuerier;
    let info = MessageInfo { sender: Addr::unchecked(admin), funds: vec![] };
    let deps = DepsMut { storage: &mut kv2, api: &api, querier: QuerierWrapper::new(&q) };
    let ok = match which {
        Which::Staking => {
            use staking::msg::ExecuteMsg as M;
            let msg = match kind {
                0 => M::CircuitBreaker {},
                1 => M::ResumeContract { total_native_token: 0u128.into(), total_liquid_stake_token: 0u128.into(), total_reward_amount: 0u128.into() },
                _ => M::UpdateConfig { native_chain_config: None, protocol_chain_config: None, protocol_fee_config: None, monitors: None, batch_period: Some(50) },
            };
            matches!(guarded(|| staking::contract::execute(deps, env(time), info, msg)), Ok(Ok(_)))
        }
        Which::Treasury => {
            use treasury::msg::ExecuteMsg as M;
            let msg = match kind {
                0 => M::UpdateConfig { trader: Some(p20("B")), allowed_swap_routes: None },
                1 => M::SpendFunds { amount: cosmwasm_std::Coin::new(5, "uosmo"), receiver: p20("C"), channel_id: None },
                _ => M::UpdateConfig { trader: None, allowed_swap_routes: Some(vec![]) },
            };
            matches!(guarded(|| treasury::contract::execute(deps, env(time), info, msg)), Ok(Ok(_)))
        }
    };
    if ok {
        Ok(kv2)
    } else {
        Err("refused".into())
    }
}

/// does an admin-only message succeed for `p`?
fn admin_probe(which: Which, kv: &Kv, time: u64, p: &str) -> bool {
    let mut kv2 = kv.clone();
    let api = SimApi { prefix: PROTO_PREFIX };
    let q = NoQuerier;
    let info = MessageInfo { sender: Addr::unchecked(p), funds: vec![] };
    let deps = DepsMut { storage: &mut kv2, api: &api, querier: QuerierWrapper::new(&q) };
    match which {
        Which::Staking => {
            let k = K::k0();
            let msg = staking::msg::ExecuteMsg::AddValidator { new_validator: val(&k, "probe") };
            matches!(guarded(|| staking::contract::execute(deps, env(time), info, msg)), Ok(Ok(_)))
        }
        Which::Treasury => {
            let msg = treasury::msg::ExecuteMsg::UpdateConfig { trader: Some(p20("B")), allowed_swap_routes: None };
            matches!(guarded(|| treasury::contract::execute(deps, env(time), info, msg)), Ok(Ok(_)))
        }
    }
}

pub fn try_treasury_kv(admin: &str, trader: &str, routes: Vec<Vec<treasury::state::SwapRoute>>) -> Option<Kv> {
    let api = SimApi { prefix: PROTO_PREFIX };
    let q = NoQuerier;
    let inst = |routes: Vec<Vec<treasury::state::SwapRoute>>| -> Option<Kv> {
        let mut kv = Kv::default();
        let info = MessageInfo { sender: Addr::unchecked(admin), funds: vec![] };
        let deps = DepsMut { storage: &mut kv, api: &api, querier: QuerierWrapper::new(&q) };
        let msg = treasury::msg::InstantiateMsg { admin: None, trader: Some(trader.to_string()), allowed_swap_routes: routes };
        match guarded(|| treasury::contract::instantiate(deps, env(T0), info, msg)) {
            Ok(Ok(_)) => Some(kv),
            _ => None,
        }
    };
    if let Some(kv) = inst(routes.clone()) {
        return Some(kv);
    }
    // instantiation refused this allow-list: try to install it through UpdateConfig on a valid instance
    let mut kv = inst(vec![])?;
    let info = MessageInfo { sender: Addr::unchecked(admin), funds: vec![] };
    let deps = DepsMut { storage: &mut kv, api: &api, querier: QuerierWrapper::new(&q) };
    let msg = treasury::msg::ExecuteMsg::UpdateConfig { trader: None, allowed_swap_routes: Some(routes) };
    match guarded(|| treasury::contract::execute(deps, env(T0), info, msg)) {
        Ok(Ok(_)) => Some(kv),
        _ => None,
    }
}

pub fn treasury_kv(admin: &str, trader: &str, routes: Vec<Vec<treasury::state::SwapRoute>>) -> Kv {
    try_treasury_kv(admin, trader, routes).expect("treasury instantiate")
}

pub struct OwnScenario {
    pub which: Which,
}

impl Scenario for OwnScenario {
    type S = OwnState;
    type A = OwnAct;
    fn name(&self) -> String {
        format!("own-{:?}", self.which)
    }
    fn seeds(&self) -> Vec<(String, OwnState)> {
        NANOS.with(|c| c.set(0));
        CHAIN.with(|c| c.set(0));
        let kv = match self.which {
            Which::Staking => World::new(&K::k0()).expect("instantiate").kv,
            Which::Treasury => treasury_kv(&p20("adm"), &p20("trader"), vec![]),
        };
        (0..CHAIN_IDS.len() as u8)
            .map(|chain| (format!("fresh@{}", CHAIN_IDS[chain as usize]), OwnState { which: self.which, kv: kv.clone(), time: T0, nanos: 0, chain, admin: p20("adm"), nominee: None, earliest: None, handovers: 0, noise: 0 }))
            .collect()
    }
    fn actions(&self, s: &OwnState) -> Vec<OwnAct> {
        let ps = principals();
        let mut a = Vec::new();
        for by in &ps {
            for to in [&ps[1], &ps[3], &ps[0]] {
                a.push(OwnAct::Transfer { by: by.clone(), to: to.clone() });
            }
            a.push(OwnAct::Revoke { by: by.clone() });
            a.push(OwnAct::Accept { by: by.clone() });
        }
        if s.noise < 2 && s.nominee.is_some() {
            for kind in 0..4u8 {
                a.push(OwnAct::Noise { kind });
            }
        }
        if s.time < T0 + 3 * WEEK {
            if let Some(t) = s.earliest {
                for c in [t - 1, t, t + 1] {
                    for nanos in [0u32, 1, 999_999_999] {
                        if c > s.time || (c == s.time && nanos > s.nanos) {
                            a.push(OwnAct::Advance { to: c, nanos });
                        }
                    }
                }
            }
            a.push(OwnAct::Advance { to: s.time + 1, nanos: 500_000_000 });
        }
        a
    }
    fn step(&self, s: &OwnState, a: &OwnAct) -> Step<OwnState> {
        let mut n = s.clone();
        let mut violations = vec![];
        let mut tags = vec![];
        NANOS.with(|c| c.set(s.nanos));
        CHAIN.with(|c| c.set(s.chain));
        if let OwnAct::Advance { to, nanos } = a {
            n.time = *to;
            n.nanos = *nanos;
            return Step { next: Some(n), violations, tags: vec!["Advance:ok".into()], validated: 0, digest: 0 };
        }
        if let OwnAct::Noise { kind } = a {
            // executed by the reference admin; its outcome is not judged here, only that the handover
            // state (judged on every state and on every later step) is untouched
            let mut tags = vec!["Noise:ok".to_string()];
            if let Ok(kv2) = noise_call(s.which, &s.kv, s.time, &s.admin, *kind) {
                n.kv = kv2;
                if *kind == 3 {
                    tags.push("Noise:upgrade_migrated".into());
                }
            }
            n.noise += 1;
            return Step { next: Some(n), violations, tags, validated: 0, digest: 0 };
        }
        let by = match a {
            OwnAct::Transfer { by, .. } | OwnAct::Revoke { by } | OwnAct::Accept { by } => by.clone(),
            _ => unreachable!(),
        };
        // reference machine
        let expect_ok = match a {
            OwnAct::Transfer { .. } | OwnAct::Revoke { .. } => by == s.admin,
            OwnAct::Accept { .. } => s.nominee.as_deref() == Some(by.as_str()) && s.earliest.map(|t| s.time >= t).unwrap_or(true),
            _ => false,
        };
        let r = call(s.which, &s.kv, s.time, &by, a);
        let label = match a {
            OwnAct::Transfer { .. } => "Transfer",
            OwnAct::Revoke { .. } => "Revoke",
            OwnAct::Accept { .. } => "Accept",
            _ => "",
        };
        match &r {
            Err(e) if e == "PANIC" => violations.push(viol("C16", "own.panic", format!("{:?} {:?} panicked", s.which, a))),
            _ => {}
        }
        let ok = r.is_ok();
        if ok != expect_ok {
            let key = format!("own.{}.{}", label.to_lowercase(), if ok { "accepted_wrongly" } else { "refused_wrongly" });
            violations.push(viol(
                "C12",
                &key,
                format!(
                    "{:?}: {:?} at t={} (admin {}, nominee {:?}, earliest {:?}): ok={} err={:?}; reference says {}",
                    s.which, a, s.time, s.admin, s.nominee, s.earliest, ok, r.as_ref().err(), expect_ok
                ),
            ));
        }
        if let Ok(kv2) = r {
            n.kv = kv2;
            if expect_ok {
                match a {
                    OwnAct::Transfer { to, .. } => {
                        n.nominee = Some(to.clone());
                        n.earliest = Some(s.time + WEEK);
                    }
                    OwnAct::Revoke { .. } => {
                        n.nominee = None;
                        n.earliest = None;
                    }
                    OwnAct::Accept { .. } => {
                        n.admin = by.clone();
                        n.nominee = None;
                        n.handovers = n.handovers.saturating_add(1).min(3);
                        tags.push("goal:ownership_changed_hands".into());
                        if s.earliest == Some(s.time) {
                            tags.push("goal:accepted_exactly_at_seven_days".into());
                        }
                    }
                    _ => {}
                }
            }
        } else {
            if let OwnAct::Accept { .. } = a {
                if s.nominee.as_deref() == Some(by.as_str()) && s.earliest == Some(s.time + 1) {
                    tags.push("goal:refused_one_second_early".into());
                }
            }
        }
        tags.push(format!("{label}:{}", if ok { "ok" } else { "fail" }));
        let next = if n != *s { Some(n) } else { None };
        Step { next, violations, tags, validated: 1, digest: 0 }
    }
    fn on_state(&self, s: &OwnState) -> StateObs {
        NANOS.with(|c| c.set(s.nanos));
        CHAIN.with(|c| c.set(s.chain));
        let mut o = StateObs::default();
        // exactly the reference admin has admin rights (a former admin has none)
        let mut with_rights: Vec<String> = vec![];
        for p in principals() {
            o.probes += 1;
            if admin_probe(s.which, &s.kv, s.time, &p) {
                with_rights.push(p);
            }
        }
        if with_rights != vec![s.admin.clone()] {
            o.violations.push(viol("C12", "own.admin_rights", format!("{:?}: admin rights held by {:?}, reference admin {}", s.which, with_rights, s.admin)));
        }
        if s.handovers > 0 && !with_rights.contains(&p20("adm")) && s.admin != p20("adm") {
            o.tags.push("goal:former_admin_has_no_rights".into());
        }
        let api = SimApi { prefix: PROTO_PREFIX };
        let q = NoQuerier;
        let deps = cosmwasm_std::Deps { storage: &s.kv, api: &api, querier: QuerierWrapper::new(&q) };
        match s.which {
            Which::Staking => {
                let b = staking::contract::query(deps, env(s.time), staking::msg::QueryMsg::State {}).expect("state");
                let st: staking::msg::StateResponse = serde_json::from_slice(b.as_slice()).unwrap();
                let want = s.nominee.clone().unwrap_or_default();
                if st.pending_owner != want {
                    o.violations.push(viol("C12", "own.nominee", format!("State.pending_owner {:?}, reference nominee {:?}", st.pending_owner, s.nominee)));
                }
            }
            Which::Treasury => {
                let b = treasury::contract::query(deps, env(s.time), treasury::msg::QueryMsg::Config {}).expect("config");
                let c: treasury::msg::ConfigResponse = serde_json::from_slice(b.as_slice()).unwrap();
                if c.admin.as_str() != s.admin {
                    o.violations.push(viol("C12", "own.config_admin", format!("treasury Config.admin {} but reference admin {}", c.admin, s.admin)));
                }
            }
        }
        o
    }
}

pub fn run(thorough: bool) -> i32 {
    let mut r = Runner::new("C12", if thorough { "thorough" } else { "quick" });
    r.assumptions = vec!["the contracts' execute entry points are called directly on a cloneable store (ownership messages emit no sub-messages)".into()];
    for which in [Which::Staking, Which::Treasury] {
        let sc = OwnScenario { which };
        let lim = Limits { max_depth: if thorough { 11 } else { 8 }, max_states: 20_000_000, max_wall_s: if thorough { 3000.0 } else { 200.0 } };
        let keys = r.known_keys();
        let rep = explore(&sc, &lim, &keys);
        r.states += rep.states;
        r.transitions += rep.transitions;
        r.validated += rep.validated;
        r.probes += rep.probes;
        for (k, v) in &rep.tags {
            *r.tags.entry(format!("{}/{}", sc.name(), k)).or_insert(0) += v;
        }
        if let Some(c) = &rep.capped {
            r.caps.push(format!("{}: {}", sc.name(), c));
        }
        for (seed, path) in rep.sample_paths.iter().take(2) {
            r.samples.push(json!({"scenario": sc.name(), "seed": seed, "path": path}));
        }
        r.runs.push(json!({"scenario": sc.name(), "states": rep.states, "transitions": rep.transitions, "depth_completed": rep.max_depth, "levels": rep.levels, "probes": rep.probes, "tags": rep.tags, "capped": rep.capped}));
        if rep.found.is_empty() && rep.capped.is_none() {
            // second engine: stateright BFS must reach exactly the same set of states
            let x = crate::xcheck::run_stateright(std::sync::Arc::new(OwnScenario { which }), lim.max_depth);
            let same = x.worlds == rep.states && x.xor == rep.state_acc.0 && x.sum == rep.state_acc.1 && !x.violated;
            r.runs.push(json!({"crosscheck": "stateright-0.31 bfs", "scenario": sc.name(), "distinct_states": x.worlds, "agrees_with_primary_engine": same}));
            if !same {
                r.machinery.push(format!("engine cross-check failed for {}: {} vs {} states", sc.name(), rep.states, x.worlds));
            } else {
                r.notes.push(format!("cross-check: stateright BFS reached the same {} distinct states as the primary engine in {}", x.worlds, sc.name()));
            }
        }
        let aborted = rep.found.iter().any(|f| !f.known) || rep.capped.is_some();
        for g in ["goal:ownership_changed_hands", "goal:accepted_exactly_at_seven_days", "goal:refused_one_second_early", "goal:former_admin_has_no_rights", "Revoke:ok", "Noise:upgrade_migrated"] {
            if !aborted && !rep.tags.contains_key(g) {
                r.machinery.push(format!("vacuous exploration: {} never hit {}", sc.name(), g));
            }
        }
        for f in rep.found {
            let mut n = 0;
            for _ in 0..2 {
                if let Ok((vs, _)) = replay(&sc, &f.seed, &f.path) {
                    if vs.iter().any(|v| v.key == f.violation.key) {
                        n += 1;
                    }
                }
            }
            if n != 2 {
                r.machinery.push(format!("non-deterministic violation {}", f.violation.key));
                continue;
            }
            if f.known {
                r.known_hits.push(f.violation);
            } else if f.violation.property == "C12" {
                let body = json!({"kind": "own", "property": "C12", "scenario": sc.name(), "which": which, "build": r.build, "seed": f.seed, "path": f.path, "key": f.violation.key, "detail": f.violation.detail});
                r.violations.push((f.violation, body));
            } else {
                r.notes.push(format!("cross-check: {} {}", f.violation.key, f.violation.detail));
            }
        }
    }
    r.finish()
}

pub fn replay_file(body: &serde_json::Value) -> i32 {
    let which: Which = serde_json::from_value(body["which"].clone()).expect("which");
    let path: Vec<OwnAct> = serde_json::from_value(body["path"].clone()).expect("path");
    let key = body["key"].as_str().unwrap_or("");
    let sc = OwnScenario { which };
    match replay(&sc, body["seed"].as_str().unwrap_or("fresh"), &path) {
        Ok((vs, _)) => {
            if let Some(v) = vs.iter().find(|v| v.key == key) {
                println!("DETAIL {} {}: {}", v.property, v.key, v.detail);
                println!("VIOLATION property=C12 replay=(replayed)");
                1
            } else {
                println!("OK replay did not reproduce {key}");
                0
            }
        }
        Err(e) => {
            println!("MACHINERY-ERROR: {e}");
            2
        }
    }
}
