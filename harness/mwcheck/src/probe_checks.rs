//! C08, C10, C16 (battery part), C17: base searches whose every distinct state is handed to a
//! probe battery.

use crate::acts::*;
use crate::common::Runner;
use crate::ledger::{self, Plan};
use crate::menu::*;
use crate::probes::*;
use crate::scen::*;
use cosmwasm_std::Uint128;
use mwsim::explore::{viol, Limits};
use mwsim::sim::*;
use mwsim::world::*;
use serde_json::json;
use staking::msg::ExecuteMsg;
use staking::types::UnsafeProtocolFeeConfig;

fn mk(name: &str, seeds: Vec<(String, Sim)>, menu: Menu) -> StakingScenario {
    StakingScenario { name: name.to_string(), props: vec![], seeds, menu, probe: None, goal: None, extra_step: None, dev_cost: std_dev, panics_are: None }
}

fn trim(f: impl FnOnce() -> Sim, keep: u128) -> Option<Sim> {
    try_seed(f).map(|s| trim_of(s, keep))
}

fn avail(v: Vec<(String, Option<Sim>)>) -> Vec<(String, Sim)> {
    v.into_iter().filter_map(|(n, s)| s.map(|s| (n, s))).collect()
}

fn trim_of(mut s: Sim, keep: u128) -> Sim {
    let sdn = sd();
    for i in 1..=3u8 {
        let a = u(i);
        let b = s.w.bal(&a, &sdn);
        if b > keep {
            s.w.bank.insert((a.clone(), sdn.clone()), keep);
            s.g.endowment -= b - keep;
        }
    }
    s
}

fn upd(native: Option<staking::types::UnsafeNativeChainConfig>, proto: Option<staking::types::UnsafeProtocolChainConfig>, mons: Option<Vec<String>>) -> ExecuteMsg {
    ExecuteMsg::UpdateConfig { native_chain_config: native, protocol_chain_config: proto, protocol_fee_config: None, monitors: mons, batch_period: None }
}

// ------------------------------------------------------------------------------------------ C08
fn auth_plan(thorough: bool) -> Plan {
    let k = K::k4();
    let fees_tre = || {
        let sc = Script::resumed(&k).run(stake(&u(1), 100)).with(|s| rewards(s, 50)).with(|s| rewards(s, 50));
        sc.run(exec(
            &adm(),
            ExecuteMsg::UpdateConfig {
                native_chain_config: None,
                protocol_chain_config: None,
                protocol_fee_config: Some(UnsafeProtocolFeeConfig { dao_treasury_fee: Uint128::new(10_000), treasury_address: Some(p20("tre")) }),
                monitors: None,
                batch_period: None,
            },
            vec![],
        ))
        .done()
    };
    let refundable = || {
        let mut s = seed_two_stakes(&k);
        let ap = s.apply(&hold(stake(&u(1), 20)));
        let seq = ap.out.new_packets[0];
        s.apply(&Act::Outcome { seq, kind: 1 });
        s
    };
    let seeds: Vec<(String, Sim)> = avail(vec![
        ("K4/fresh".into(), trim(|| seed_fresh(&k), 100)),
        ("K4/fees_treasury".into(), trim(fees_tre, 100)),
        ("K4/refundable".into(), trim(refundable, 100)),
        ("K4/submitted".into(), trim(|| seed_submitted(&k), 100)),
        ("K4/received".into(), trim(|| seed_received(&k), 100)),
    ]);
    let kk = k.clone();
    let menu: Menu = Box::new(move |s| {
        let mut a = Vec::new();
        let admin = s.w.admin().unwrap_or_default();
        let st = s.w.state();
        let cfg = s.w.config();
        if st.pending_owner.is_empty() {
            if admin == adm() {
                a.push(exec(&admin, ExecuteMsg::TransferOwnership { new_owner: p20("nom") }, vec![]));
            }
        } else {
            a.push(exec(&st.pending_owner, ExecuteMsg::AcceptOwnership {}, vec![]));
            a.push(exec(&admin, ExecuteMsg::RevokeOwnershipTransfer {}, vec![]));
            let t = s.w.time + 7 * 24 * 3600;
            if s.w.time < T0 + 7 * 24 * 3600 {
                a.push(advance(t));
            }
        }
        // configuration changes that move the privileged accounts
        if cfg.monitors.len() == 2 {
            a.push(exec(&admin, upd(None, None, Some(vec![p20("mon2")])), vec![]));
            a.push(exec(&admin, upd(None, None, Some(vec![])), vec![]));
            // a large on-call team
            a.push(exec(&admin, upd(None, None, Some(monitors_of(&K::k5(3)))), vec![]));
        }
        let im = instantiate_msg(&kk);
        if cfg.native_chain_config.staker_address.as_str() == n20(&kk, "staker") {
            let mut n = im.native_chain_config.clone();
            n.staker_address = n20(&kk, "staker2");
            n.reward_collector_address = n20(&kk, "collector2");
            a.push(exec(&admin, upd(Some(n), None, None), vec![]));
        }
        if cfg.protocol_chain_config.ibc_channel_id == SIM_CHANNEL {
            for ch in ["channel-5", "channel-007"] {
                let mut p = im.protocol_chain_config.clone();
                p.ibc_channel_id = ch.into();
                a.push(exec(&admin, upd(None, Some(p), None), vec![]));
            }
        }
        if s.m.halted {
            a.push(resume(&admin, st.total_native_token.u128(), st.total_liquid_stake_token.u128(), st.total_reward_amount.u128()));
        } else {
            a.push(halt(&admin));
        }
        if s.w.ibc.next_seq <= 6 + s.g.seed_seq && s.w.bal(&u(1), &sd()) >= 100 {
            a.push(stake(&u(1), 100));
        }
        let l = s.w.bal(&u(1), &s.w.lst_denom());
        if l >= 30 && s.m.batches.len() as u64 <= 2 + s.g.seed_batches {
            a.push(unstake(s, &u(1), 30));
        }
        let pd = pending_due(s);
        if s.w.time < pd {
            a.push(advance(pd));
        }
        for b in s.m.batches.values() {
            if b.status == MStatus::Submitted {
                if s.w.time < b.due {
                    a.push(advance(b.due));
                }
                a.push(deliver(s, b.id, b.expected.unwrap_or(1).max(1)));
            }
        }
        a.push(submit(&p20("x")));
        if s.w.ibc.next_seq <= 6 + s.g.seed_seq {
            a.push(rewards(s, 50));
        }
        a
    });
    let mut sc = mk("auth-K4", seeds, menu);
    sc.probe = Some(Box::new(auth_probe));
    sc.goal = Some(Box::new(|pre, a, ap, post| {
        let mut g = vec![];
        if ap.out.ok {
            if let Act::Exec { msg: ExecuteMsg::AcceptOwnership {}, .. } = a {
                if pre.w.admin() != post.w.admin() {
                    g.push("ownership_changed_hands".to_string());
                }
            }
        }
        g
    }));
    let mut required = vec!["goal:ownership_changed_hands", "c08:withdraw_paid_caller"];
    for l in [
        "AddValidator", "RemoveValidator", "UpdateConfig.batch_period", "UpdateConfig.monitors", "UpdateConfig.fee", "TransferOwnership", "RevokeOwnershipTransfer", "ResumeContract",
        "FeeWithdraw", "Recover.forced", "CircuitBreaker", "AcceptOwnership", "ReceiveRewards", "ReceiveUnstakedTokens",
    ] {
        required.push(Box::leak(format!("c08:only_authorised_succeeded:{l}").into_boxed_str()));
    }
    Plan { sc, depth: if thorough { 8 } else { 5 }, required }
}

// ------------------------------------------------------------------------------------------ C10
fn breaker_plans(thorough: bool) -> Vec<Plan> {
    let mut out = vec![];
    for k in [K::k0(), K::k5(1), K::k5(3), K::k5(2), K::k1()] {
        if (k.name == "K1" || k.name == "K5-2") && !thorough {
            continue;
        }
        let seeds: Vec<(String, Sim)> = avail(vec![
            (format!("{}/fresh", k.name), trim(|| seed_fresh(&k), 150)),
            (format!("{}/two_stakes", k.name), trim(|| seed_two_stakes(&k), 150)),
            (format!("{}/rate_up", k.name), trim(|| seed_rate_up(&k), 150)),
            (format!("{}/queued", k.name), trim(|| seed_queued(&k), 150)),
            (format!("{}/submitted", k.name), trim(|| seed_submitted(&k), 150)),
            (format!("{}/received", k.name), trim(|| seed_received(&k), 150)),
            // the same with the left-overs of an earlier release in the stored state
            (format!("{}/foreign_state_received", k.name), trim(|| foreign_state(seed_received(&k)), 150)),
            (format!("{}/foreign_state_fresh", k.name), trim(|| foreign_state(seed_fresh(&k)), 150)),
            (format!("{}/leftover_reply", k.name), trim(|| leftover_reply(seed_two_stakes(&k), &k), 150)),
        ]);
        let mut o = MenuOpt::base();
        o.halt_resume = true;
        o.stake_native = true;
        o.holds = false;
        o.max_dev = 0;
        o.stake_amts = vec![100];
        o.rewards = vec![50];
        o.unstake = vec![Frac::Third];
        let o2 = o.clone();
        let mut sc = mk(&format!("breaker-{}", k.name), seeds, Box::new(move |s| std_menu(s, &o)));
        sc.probe = Some(Box::new(move |s| {
            let cands = std_menu(s, &o2);
            breaker_probe(s, &cands)
        }));
        let mut required = vec!["c10:halt_changes_only_flag", "c10:resume_sets_exactly_totals", "c10:other_messages_keep_flag"];
        for kind in ["LiquidStake", "LiquidUnstake", "SubmitBatch", "Withdraw", "ReceiveRewards", "ReceiveUnstakedTokens"] {
            required.push(Box::leak(format!("c10:refused_while_halted:{kind}").into_boxed_str()));
        }
        out.push(Plan { sc, depth: if thorough { 6 } else { 3 }, required });
    }
    out
}

/// a newly instantiated contract is halted and refuses all six operations
fn fresh_instances(r: &mut Runner) {
    let mut evals = 0u64;
    let mut viols = vec![];
    let mut samples = vec![];
    for k in [K::k0(), K::k1(), K::k2(), K::k4(), K::k3(100_000), K::k3(150_000)] {
        let mut s = seed_fresh(&k);
        let cfg = s.w.config();
        if !cfg.stopped {
            viols.push((viol("C10", "fresh.not_halted", format!("fresh instance under {} is not halted", k.name)), json!({"k": k.name})));
        }
        let lst = s.w.lst_denom();
        // hand out LST out of thin air so that LiquidUnstake carries valid funds (probe only)
        s.w.credit(&u(1), &lst, 10);
        let acts = vec![
            stake(&u(1), 100),
            stake_to(&u(1), 100, Some(n20(&k, "n1")), Some(true), None),
            unstake(&s, &u(1), 10),
            submit(&u(1)),
            withdraw(&u(1), 1),
            rewards(&s, 50),
            deliver(&s, 1, 50),
        ];
        for a in acts {
            let mut t = s.clone();
            let ap = t.apply(&a);
            evals += 1;
            let halted_err = ap.out.err.as_deref().unwrap_or("").contains("halted");
            if ap.out.ok || t.w != s.w || !halted_err {
                viols.push((
                    viol("C10", &format!("fresh.accepts.{}", act_label(&a)), format!("fresh instance under {}: {} ok={} err={:?}", k.name, act_label(&a), ap.out.ok, ap.out.err)),
                    json!({"k": k.name, "act": a}),
                ));
            }
            if samples.len() < 2 {
                samples.push(json!({"k": k.name, "act": a, "err": ap.out.err}));
            }
        }
    }
    r.grid("fresh-instances-refuse-six-operations", evals, 6, 0, evals, samples, viols);
}

/// only the admin can resume: no migration path may clear (or set) the halted flag
fn halted_survives_migration(r: &mut Runner) {
    use staking::migrations::states::{v0_4_18, v0_4_20};
    use staking::msg::MigrateMsg;
    let k = K::k0();
    let base = seed_received(&k).w.kv;
    let mut n = 0u64;
    let mut viols = vec![];
    for stopped in [true, false] {
        // 0.4.18 -> 0.4.20
        let mut old = crate::migrate_grid::old_config_0_4_18(&k, Some(true), true);
        old.stopped = stopped;
        let mut kv = base.clone();
        v0_4_18::CONFIG.save(&mut kv, &old).unwrap();
        cw2::set_contract_version(&mut kv, "staking", "0.4.18").unwrap();
        n += 1;
        if crate::migrate_grid::migrate_raw(&mut kv, MigrateMsg::V0_4_18ToV0_4_20 { send_fees_to_treasury: true }).is_ok() {
            let got = v0_4_20::CONFIG.load(&kv).map(|c| c.stopped).ok();
            if got != Some(stopped) {
                viols.push((viol("C10", "migration.changes_halted_flag.v0_4_20", format!("0.4.18 -> 0.4.20 turned stopped={stopped} into {:?}", got)), json!({"path": "0.4.18->0.4.20", "stopped": stopped})));
            }
            // 0.4.20 -> 1.0.0 on the result
            cw2::set_contract_version(&mut kv, "staking", "0.4.20").unwrap();
            n += 1;
            let msg = MigrateMsg::V0_4_20ToV1_0_0 {
                native_account_address_prefix: k.native_prefix.clone(),
                native_validator_address_prefix: format!("{}valoper", k.native_prefix),
                native_token_denom: "utia".into(),
                protocol_account_address_prefix: "osmo".into(),
            };
            if crate::migrate_grid::migrate_raw(&mut kv, msg).is_ok() {
                let got = staking::state::CONFIG.load(&kv).map(|c| c.stopped).ok();
                if got != Some(stopped) {
                    viols.push((viol("C10", "migration.changes_halted_flag.v1_0_0", format!("0.4.20 -> 1.0.0 turned stopped={stopped} into {:?}", got)), json!({"path": "0.4.20->1.0.0", "stopped": stopped})));
                }
            }
        }
        // 1.0.0 -> 1.1.0 on a current-layout store
        let mut s = seed_received(&k);
        if stopped {
            s.apply(&halt(&adm()));
        }
        let mut kv = s.w.kv.clone();
        cw2::set_contract_version(&mut kv, "staking", "1.0.0").unwrap();
        for key in kv.m.keys().filter(|k| k.windows(8).any(|w| w == b"inflight")).cloned().collect::<Vec<_>>() {
            kv.m.remove(&key);
        }
        n += 1;
        if crate::migrate_grid::migrate_raw(&mut kv, MigrateMsg::V1_0_0ToV1_1_0 {}).is_ok() {
            let got = staking::state::CONFIG.load(&kv).map(|c| c.stopped).ok();
            if got != Some(stopped) {
                viols.push((viol("C10", "migration.changes_halted_flag.v1_1_0", format!("1.0.0 -> 1.1.0 turned stopped={stopped} into {:?}", got)), json!({"path": "1.0.0->1.1.0", "stopped": stopped})));
            }
        }
    }
    r.grid("c10-halted-flag-survives-migrations", n, 2, n, 0, vec![json!({"path": "0.4.20->1.0.0", "stopped": true})], viols);
}

// ------------------------------------------------------------------------------------------ C16
fn hostile_plans(thorough: bool) -> Vec<Plan> {
    let mut out = vec![];
    for k in [K::k0(), K::k1(), K::k2(), K::k3(150_000)] {
        let refundable = || {
            let mut s = seed_two_stakes(&k);
            for kind in [1u8, 2] {
                let ap = s.apply(&hold(stake(&u(1), 20)));
                let seq = ap.out.new_packets[0];
                s.apply(&Act::Outcome { seq, kind });
            }
            let ap = s.apply(&hold(stake_to(&u(1), 20, Some(n20(&k, "n1")), Some(true), None)));
            for seq in ap.out.new_packets {
                s.apply(&Act::Outcome { seq, kind: 1 });
            }
            s
        };
        let mut seeds: Vec<(String, Option<Sim>)> = vec![
            (format!("{}/fresh", k.name), trim(|| seed_fresh(&k), 120)),
            (format!("{}/two_stakes", k.name), trim(|| seed_two_stakes(&k), 120)),
            (format!("{}/refundable", k.name), trim(refundable, 120)),
        ];
        // amounts at the top of the window of C16 (10^27) carried through a whole history
        let big = 1_000_000_000_000_000_000_000_000_000u128;
        let kb = k.clone();
        seeds.push((
            format!("{}/big_received", k.name),
            try_seed(move || {
                let mut sc = Script::resumed(&kb);
                sc.s.fund(&u(1), big);
                sc.s.fund(&u(2), big);
                let sc = sc.run(stake(&u(1), big)).run(stake(&u(2), big / 3 + 1));
                let sc = sc.with(|s| unstake(s, &u(1), big / 2)).with(|s| unstake(s, &u(2), big / 7));
                let sc = sc.with(|s| advance(pending_due(s))).run(submit(&u(1)));
                let sc = sc.with(|s| advance(s.m.batches[&1].due)).with(|s| deliver(s, 1, s.m.batches[&1].expected.unwrap()));
                sc.done()
            }),
        ));
        if k.fee <= 100_000 {
            // (a fee rate above 100 % refuses every reward, so the reward-based seeds do not exist there)
            seeds.push((format!("{}/rate_up", k.name), trim(|| seed_rate_up(&k), 120)));
            seeds.push((format!("{}/mid_received", k.name), trim(|| seed_mid_received(&k), 120)));
            seeds.push((format!("{}/received", k.name), trim(|| seed_received(&k), 120)));
            seeds.push((format!("{}/rate_down", k.name), trim(|| seed_rate_down(&k), 120)));
            seeds.push((format!("{}/sweep", k.name), trim(|| seed_sweep(&k), 120)));
        }
        let mut o = MenuOpt::base();
        o.halt_resume = true;
        o.stake_native = true;
        o.stake_amts = vec![100];
        o.rewards = vec![50];
        o.unstake = vec![Frac::All];
        o.max_dev = 1;
        let full = thorough;
        let menu: Menu = Box::new(move |s| {
            let mut a = std_menu(s, &o);
            // reply-path faults inside a transaction (the transfer module answers with no data / garbage)
            if s.g.dev < o.max_dev {
                a.push(Act::ReplyFault { mode: 1 });
                a.push(Act::ReplyFault { mode: 2 });
            } else if s.w.ibc.reply_fault != 0 {
                a.push(Act::ReplyFault { mode: 0 });
            }
            a
        });
        let mut sc = mk(&format!("hostile-{}", k.name), avail(seeds), menu);
        sc.panics_are = Some("C16");
        sc.probe = Some(Box::new(move |s| hostile_probe(s, full)));
        out.push(Plan { sc, depth: if thorough { 4 } else { 2 }, required: vec!["LiquidStake:ok", "ReplyFault(1):ok"] });
    }
    out
}

/// instantiate of the staking contract with K0-K3 and every single corruption of the configuration (C16 part)
fn instantiate_battery(r: &mut Runner) {
    let mut n = 0u64;
    let mut viols = vec![];
    for k in [K::k0(), K::k1(), K::k2(), K::k3(150_000)] {
        let base = serde_json::to_value(instantiate_msg(&k)).unwrap();
        let mut variants: Vec<serde_json::Value> = vec![base.clone()];
        for (path, vals) in [
            (vec!["native_chain_config", "account_address_prefix"], vec![json!(""), json!("a".repeat(200)), json!("é")]),
            (vec!["native_chain_config", "staker_address"], vec![json!(""), json!("1"), json!("celestia1"), json!("é1é")]),
            (vec!["native_chain_config", "validators"], vec![json!([]), json!([""]), json!(["x", "x"])]),
            (vec!["native_chain_config", "unbonding_period"], vec![json!(0), json!(315_360_000u64)]),
            (vec!["protocol_chain_config", "ibc_channel_id"], vec![json!(""), json!("channel-"), json!("channel-99999999999999999999999")]),
            (vec!["protocol_chain_config", "ibc_token_denom"], vec![json!(""), json!("ibc/"), json!("ibc/é")]),
            (vec!["protocol_chain_config", "minimum_liquid_stake_amount"], vec![json!("0"), json!("340282366920938463463374607431768211455")]),
            (vec!["protocol_fee_config", "dao_treasury_fee"], vec![json!("0"), json!("1000000")]),
            (vec!["liquid_stake_token_denom"], vec![json!(""), json!("abc"), json!("é"), json!("a".repeat(300))]),
            (vec!["batch_period"], vec![json!(0), json!(315_360_000u64)]),
            (vec!["monitors"], vec![json!([]), json!([""]), json!(["osmo1", "osmo1"])]),
        ] {
            for v in vals {
                let mut m = base.clone();
                let mut cur = &mut m;
                for p in &path[..path.len() - 1] {
                    cur = &mut cur[*p];
                }
                cur[path[path.len() - 1]] = v;
                variants.push(m);
            }
        }
        // checksum-valid strings that do not encode a byte string, in every address field
        let odd_n = mwsim::bech::odd_strings(&k.native_prefix);
        let odd_v = mwsim::bech::odd_strings(&format!("{}valoper", k.native_prefix));
        let odd_p = mwsim::bech::odd_strings(PROTO_PREFIX);
        for i in 0..odd_n.len() {
            for (path, val) in [
                (vec!["native_chain_config", "staker_address"], json!(odd_n[i])),
                (vec!["native_chain_config", "reward_collector_address"], json!(odd_n[i])),
                (vec!["native_chain_config", "validators"], json!([odd_v[i]])),
                (vec!["protocol_chain_config", "oracle_address"], json!(odd_p[i])),
                (vec!["protocol_fee_config", "treasury_address"], json!(odd_p[i])),
                (vec!["monitors"], json!([odd_p[i]])),
            ] {
                let mut m = base.clone();
                let mut cur = &mut m;
                for p in &path[..path.len() - 1] {
                    cur = &mut cur[*p];
                }
                cur[path[path.len() - 1]] = val;
                variants.push(m);
            }
        }
        for v in variants {
            let Ok(msg) = serde_json::from_value::<staking::msg::InstantiateMsg>(v.clone()) else { continue };
            n += 1;
            if let Err(e) = World::new_with(&k, msg) {
                if e.contains("panic") {
                    viols.push((viol("C16", "panic.instantiate", format!("instantiate panicked: {e}")), json!({"config": k.name, "message": v})));
                }
            }
        }
    }
    r.grid("c16-staking-instantiate-battery", n, 2, n, 0, vec![json!({"config": "K1", "field": "liquid_stake_token_denom", "value": ""})], viols);
}

/// "For any stored set of batches": stores far larger than any history the searches build. 2 100 batches
/// (pattern of Received / Submitted, one Pending at the end) and 2 100 tracked packets are written next to a
/// reachable store; every (start_after, limit, status) triple of a boundary menu is compared with the
/// answer computed from the list that was written, and clients paging until a short page must see all.
fn bulk_store_grid(r: &mut Runner) {
    use milky_way::staking::{Batch, BatchStatus};
    use staking::msg::{BatchesResponse, IBCQueueResponse, QueryMsg};
    let k = K::k0();
    let Some(base) = try_seed(|| seed_received(&k)) else {
        r.notes.push("bulk store grid skipped: seed unavailable".into());
        return;
    };
    let mut w = base.w.clone();
    let first = base.m.pending; // the pending batch of the seed becomes an ordinary one
    let n_total: u64 = 2_100;
    let mut reference: Vec<(u64, &'static str)> = base.m.batches.values().filter(|b| b.id < first).map(|b| (b.id, match b.status { MStatus::Pending => "pending", MStatus::Submitted => "submitted", MStatus::Received => "received" })).collect();
    for id in first..first + n_total {
        let mut b = Batch::new(id, Uint128::new(10 + id as u128), 1_800_000_000 + id);
        let status = if id == first + n_total - 1 {
            "pending"
        } else if id % 7 == 0 || id > first + n_total - 12 {
            b.update_status(BatchStatus::Submitted, Some(1_900_000_000 + id));
            b.expected_native_unstaked = Some(Uint128::new(11 + id as u128));
            "submitted"
        } else {
            b.update_status(BatchStatus::Received, None);
            b.expected_native_unstaked = Some(Uint128::new(11 + id as u128));
            b.received_native_unstaked = Some(Uint128::new(11 + id as u128));
            "received"
        };
        staking::state::BATCHES.save(&mut w.kv, id, &b).expect("save batch");
        reference.push((id, status));
    }
    staking::state::PENDING_BATCH_ID.save(&mut w.kv, &(first + n_total - 1)).expect("pending id");
    let mut packets: Vec<u64> = staking::state::INFLIGHT_PACKETS.keys(&w.kv, None, None, cosmwasm_std::Order::Ascending).filter_map(|x| x.ok()).collect();
    for i in 0..n_total {
        let seq = 10_000 + i * 3;
        let p = staking::state::ibc::IBCTransfer {
            sequence: seq,
            amount: cosmwasm_std::Coin::new(5 + i as u128, sd()),
            receiver: n20(&k, "staker"),
            status: if i % 2 == 0 { staking::state::ibc::PacketLifecycleStatus::Sent } else { staking::state::ibc::PacketLifecycleStatus::TimedOut },
        };
        staking::state::INFLIGHT_PACKETS.save(&mut w.kv, seq, &p).expect("save packet");
        packets.push(seq);
    }
    packets.sort();
    let maxid = first + n_total - 1;
    let starts: Vec<Option<u64>> = vec![None, Some(0), Some(1), Some(999), Some(1000), Some(1001), Some(1023), Some(1024), Some(2047), Some(2048), Some(maxid - 1), Some(maxid), Some(u64::MAX)];
    let limits: Vec<Option<u32>> = vec![None, Some(0), Some(1), Some(10), Some(127), Some(128), Some(129), Some(255), Some(256), Some(257), Some(999), Some(1000), Some(1001), Some(2048), Some(5000), Some(u32::MAX)];
    let mut n = 0u64;
    let mut nonempty = 0u64;
    let mut viols = vec![];
    let mut push = |v: mwsim::explore::Violation, case: serde_json::Value, viols: &mut Vec<(mwsim::explore::Violation, serde_json::Value)>| {
        if !viols.iter().any(|x: &(mwsim::explore::Violation, serde_json::Value)| x.0.key == v.key) {
            viols.push((v, case));
        }
    };
    for st in [None, Some(BatchStatus::Pending), Some(BatchStatus::Submitted), Some(BatchStatus::Received)] {
        let want_status = st.as_ref().map(|s| match s { BatchStatus::Pending => "pending", BatchStatus::Submitted => "submitted", BatchStatus::Received => "received" });
        for sa in &starts {
            for lim in &limits {
                let want: Vec<u64> = reference.iter().filter(|(id, s)| sa.map(|a| *id > a).unwrap_or(true) && want_status.map(|w| w == *s).unwrap_or(true)).map(|x| x.0).take(lim.map(|l| l as usize).unwrap_or(usize::MAX)).collect();
                let got: Result<BatchesResponse, String> = w.query(QueryMsg::Batches { start_after: *sa, limit: *lim, status: st.clone() });
                n += 1;
                let case = json!({"query": "Batches", "start_after": sa, "limit": lim, "status": want_status, "stored_batches": reference.len()});
                match got {
                    Ok(resp) => {
                        let ids: Vec<u64> = resp.batches.iter().map(|b| b.id).collect();
                        if !ids.is_empty() {
                            nonempty += 1;
                        }
                        if ids != want {
                            push(viol("C17", "bulk.batches.page", format!("Batches(start_after={sa:?}, limit={lim:?}, status={want_status:?}) on {} stored batches returned {} ids (first {:?}, last {:?}); expected {} (first {:?}, last {:?})", reference.len(), ids.len(), ids.first(), ids.last(), want.len(), want.first(), want.last())), case, &mut viols);
                        }
                    }
                    Err(e) => push(viol("C17", "bulk.batches.error", format!("Batches(start_after={sa:?}, limit={lim:?}, status={want_status:?}) failed: {e}")), case, &mut viols),
                }
            }
        }
        // a client paging until a short page
        for page in [7u32, 100, 1000] {
            let mut seen: Vec<u64> = vec![];
            let mut cursor: Option<u64> = None;
            for _ in 0..(n_total / page as u64 + 3) {
                let got: Result<BatchesResponse, String> = w.query(QueryMsg::Batches { start_after: cursor, limit: Some(page), status: st.clone() });
                n += 1;
                let Ok(resp) = got else { break };
                let ids: Vec<u64> = resp.batches.iter().map(|b| b.id).collect();
                seen.extend(ids.iter());
                if (ids.len() as u32) < page {
                    break;
                }
                cursor = ids.last().copied();
            }
            let want: Vec<u64> = reference.iter().filter(|(_, s)| want_status.map(|w| w == *s).unwrap_or(true)).map(|x| x.0).collect();
            if seen != want {
                push(viol("C17", "bulk.batches.client_paging", format!("paging Batches(status={want_status:?}) by {page} until a short page saw {} of {} batches (last {:?})", seen.len(), want.len(), seen.last())), json!({"query": "Batches", "page": page, "status": want_status}), &mut viols);
            }
        }
    }
    // BatchesByIds with long lists in several orders
    {
        let all_ids: Vec<u64> = reference.iter().map(|x| x.0).collect();
        let mut lists: Vec<Vec<u64>> = vec![];
        for len in [25usize, 300, all_ids.len()] {
            let asc: Vec<u64> = all_ids.iter().copied().step_by((all_ids.len() / len).max(1)).take(len).collect();
            let mut desc = asc.clone();
            desc.reverse();
            let mut eo: Vec<u64> = asc.iter().copied().filter(|i| i % 2 == 0).collect();
            eo.extend(asc.iter().copied().filter(|i| i % 2 == 1));
            let mut with_unknown = desc.clone();
            with_unknown.insert(1, u64::MAX);
            with_unknown.push(0);
            lists.extend([asc, desc, eo, with_unknown]);
        }
        for q in lists {
            let got: Result<BatchesResponse, String> = w.query(QueryMsg::BatchesByIds { ids: q.clone() });
            n += 1;
            let mut want: Vec<u64> = q.iter().copied().filter(|i| reference.iter().any(|r| r.0 == *i)).collect();
            want.sort();
            want.dedup();
            match got {
                Ok(resp) => {
                    let mut g: Vec<u64> = resp.batches.iter().map(|b| b.id).collect();
                    g.sort();
                    g.dedup();
                    if g != want {
                        push(viol("C17", "bulk.batches_by_ids", format!("BatchesByIds with {} ids (first {:?}, last {:?}) returned {} distinct existing batches, {} were requested and exist", q.len(), q.first(), q.last(), g.len(), want.len())), json!({"query": "BatchesByIds", "ids": q.len(), "first": q.first(), "last": q.last()}), &mut viols);
                    }
                }
                Err(e) => push(viol("C17", "bulk.batches_by_ids.error", format!("BatchesByIds with {} ids failed: {e}", q.len())), json!({"query": "BatchesByIds", "ids": q.len()}), &mut viols),
            }
        }
    }
    let pstarts: Vec<Option<u64>> = vec![None, Some(0), Some(9_999), Some(10_000), Some(10_001), Some(13_000), Some(*packets.last().unwrap()), Some(u64::MAX)];
    for sa in &pstarts {
        for lim in &limits {
            let want: Vec<u64> = packets.iter().copied().filter(|s| sa.map(|a| *s > a).unwrap_or(true)).take(lim.map(|l| l as usize).unwrap_or(usize::MAX)).collect();
            let got: Result<IBCQueueResponse, String> = w.query(QueryMsg::IbcQueue { start_after: *sa, limit: *lim });
            n += 1;
            let case = json!({"query": "IbcQueue", "start_after": sa, "limit": lim, "stored_packets": packets.len()});
            match got {
                Ok(resp) => {
                    let ids: Vec<u64> = resp.ibc_queue.iter().map(|p| p.sequence).collect();
                    if ids != want {
                        push(viol("C17", "bulk.queue.page", format!("IbcQueue(start_after={sa:?}, limit={lim:?}) on {} stored packets returned {} (last {:?}); expected {} (last {:?})", packets.len(), ids.len(), ids.last(), want.len(), want.last())), case, &mut viols);
                    }
                }
                Err(e) => push(viol("C17", "bulk.queue.error", format!("IbcQueue(start_after={sa:?}, limit={lim:?}) failed: {e}")), case, &mut viols),
            }
        }
    }
    r.grid("c17-bulk-store: 2100 batches and 2100 packets x (start_after, limit, status) boundary menu + client paging", n, 2, nonempty, n - nonempty, vec![json!({"query": "Batches", "start_after": 1000, "limit": 1001, "status": "received"})], viols);
    r.require(nonempty > 200, "bulk store grid must return data");
}

// ------------------------------------------------------------------------------------------ C17
fn query_plans(thorough: bool) -> Vec<Plan> {
    let mut out = vec![];
    for p in ledger::plans("C05", thorough).into_iter().chain(ledger::plans("C07", thorough)) {
        let Plan { mut sc, depth, .. } = p;
        sc.name = format!("q-{}", sc.name);
        sc.props = vec![];
        sc.goal = None;
        sc.probe = Some(Box::new(query_probe));
        let wd = sc.name.contains("wd");
        let deep = sc.name.ends_with("+deep");
        let d = if deep {
            // (the query battery on a store with dozens of batches costs ~10^4 queries per state)
            if thorough { 2 } else { 1 }
        } else if wd {
            depth.saturating_sub(2).max(3)
        } else {
            depth.saturating_sub(1).max(3)
        };
        let req: Vec<&'static str> = if deep { vec![] } else if wd { vec!["c17:batches_2", "c17:batches_3"] } else { vec!["c17:queue_11plus", "c17:queue_2"] };
        out.push(Plan { sc, depth: d, required: req });
    }
    out
}

pub fn plans(prop: &str, thorough: bool) -> Vec<Plan> {
    match prop {
        "C08" => vec![auth_plan(thorough)],
        "C10" => breaker_plans(thorough),
        "C16" => {
            let mut v = ledger::panic_plans(thorough);
            v.extend(hostile_plans(thorough));
            v
        }
        "C17" => query_plans(thorough),
        _ => vec![],
    }
}

pub fn scenarios(prop: &str, thorough: bool) -> Vec<StakingScenario> {
    plans(prop, thorough).into_iter().map(|p| p.sc).collect()
}

pub fn run(prop: &str, thorough: bool) -> i32 {
    let mut r = Runner::new(prop, if thorough { "thorough" } else { "quick" });
    if prop == "C08" {
        // "Withdraw only ever pays the caller's own request" also on batches written before requests were counted
        crate::store_pin::counterless_batches(&mut r, "C08");
    }
    if prop == "C10" {
        fresh_instances(&mut r);
        halted_survives_migration(&mut r);
    }
    if prop == "C17" {
        bulk_store_grid(&mut r);
    }
    if prop == "C16" {
        crate::treasury_grid::panic_battery(&mut r);
        instantiate_battery(&mut r);
        crate::grids::resume_lattice(&mut r, "C16", thorough);
    }
    for p in plans(prop, thorough) {
        let lim = Limits { max_depth: p.depth, max_states: if thorough { 20_000_000 } else { 2_000_000 }, max_wall_s: if thorough { 1500.0 } else { 240.0 } };
        r.run_scenario(&p.sc, lim, &p.required);
    }
    r.finish()
}
