//! Per-state probe batteries: the search supplies the states, a battery is run once on every
//! distinct state on clones (probes never extend the graph).
//!   C08 authorisation matrix · C10 circuit breaker · C16 hostile inputs · C17 queries

use crate::acts::*;
use cosmwasm_std::{Addr, Binary, Reply, SubMsgResponse, SubMsgResult, Uint128};
use milky_way::staking::BatchStatus;
use mwsim::bech;
use mwsim::explore::{viol, StateObs};
use mwsim::sim::*;
use mwsim::world::*;
use staking::msg::{BatchesResponse, ExecuteMsg, IBCLifecycleComplete, IBCQueueResponse, MigrateMsg, QueryMsg, SudoMsg};
use staking::types::{UnsafeNativeChainConfig, UnsafeProtocolChainConfig, UnsafeProtocolFeeConfig};

/// another spelling of the same channel number: leading zeros dropped, or one added
fn respell(ch: &str) -> String {
    match ch.strip_prefix("channel-") {
        Some(n) if n.len() > 1 && n.starts_with('0') => format!("channel-{}", n.trim_start_matches('0')),
        Some(n) => format!("channel-0{n}"),
        None => format!("{ch}0"),
    }
}

fn is_auth_error(e: &str) -> bool {
    e.contains("Unauthorized") || e.contains("Caller is not admin") || e.contains("No pending owner")
}

pub fn hook_accounts(s: &Sim) -> (String, String) {
    let cfg = s.w.config();
    let ch = &cfg.protocol_chain_config.ibc_channel_id;
    let pre = &cfg.protocol_chain_config.account_address_prefix;
    (
        bech::hook_sender(ch, cfg.native_chain_config.staker_address.as_str(), pre),
        bech::hook_sender(ch, cfg.native_chain_config.reward_collector_address.as_str(), pre),
    )
}

// =============================================================================================== C08
pub fn auth_probe(s: &Sim) -> StateObs {
    let mut o = StateObs::default();
    let cfg = s.w.config();
    let st = s.w.state();
    let sdn = sd();
    // roles come from the history of successful operations (reference model), so that an update or a
    // revocation the contract silently ignores is seen as a privilege that should be gone
    let admin = s.m.admin.clone();
    let nominee = s.m.nominee.clone().unwrap_or_else(|| p20("nom"));
    let former = if admin == p20("adm") { p20("former-never-admin") } else { p20("adm") };
    let (hs, hr) = hook_accounts(s);
    let mon = p20("mon");
    let principals: Vec<(&str, String)> = vec![
        ("admin", admin.clone()),
        ("former_admin", former),
        ("nominee", nominee),
        ("monitor", mon),
        ("monitor2", p20("mon2")),
        ("monitor3", p20("mon3")),
        ("former_nominee", p20("nom")),
        ("staker_hook", hs.clone()),
        ("reward_hook", hr.clone()),
        ("contract", contract_addr()),
        ("user", u(1)),
        ("stranger", p20("x")),
        // hook accounts of the originally configured channel / staker / collector (equal to the
        // current ones until a configuration update moves them)
        ("original_staker_hook", bech::hook_sender(SIM_CHANNEL, &n20(&s.w.k, "staker"), PROTO_PREFIX)),
        ("original_reward_hook", bech::hook_sender(SIM_CHANNEL, &n20(&s.w.k, "collector"), PROTO_PREFIX)),
        // same native accounts seen through another channel, and other native accounts on the same channel
        ("staker_via_other_channel", bech::hook_sender("channel-77", cfg.native_chain_config.staker_address.as_str(), PROTO_PREFIX)),
        ("collector_via_other_channel", bech::hook_sender("channel-77", cfg.native_chain_config.reward_collector_address.as_str(), PROTO_PREFIX)),
        ("other_native_account_hook", bech::hook_sender(&cfg.protocol_chain_config.ibc_channel_id, &n20(&s.w.k, "n1"), PROTO_PREFIX)),
        // the same native accounts through a channel id that is numerically equal but spelled differently
        ("staker_via_respelled_channel", bech::hook_sender(&respell(&cfg.protocol_chain_config.ibc_channel_id), cfg.native_chain_config.staker_address.as_str(), PROTO_PREFIX)),
        ("collector_via_respelled_channel", bech::hook_sender(&respell(&cfg.protocol_chain_config.ibc_channel_id), cfg.native_chain_config.reward_collector_address.as_str(), PROTO_PREFIX)),
        // accounts that appear in the configuration only as destinations
        ("treasury", cfg.protocol_fee_config.treasury_address.as_ref().map(|a| a.to_string()).unwrap_or_else(|| p20("tre"))),
        ("oracle", oracle_addr()),
        ("validator_like", p20("val-like")),
        // accounts that exist only in the chain's metadata about the contract
        ("chain_migration_admin", mwsim::kv::chain_migration_admin()),
        ("chain_creator", mwsim::kv::chain_creator()),
    ];
    let monitors: Vec<String> = s.m.monitors.clone();
    // every configured monitor is a principal (a team of twelve as well as the usual two)
    let mut principals = principals;
    for (i, m) in monitors.iter().enumerate() {
        if !principals.iter().any(|p| p.1 == *m) {
            principals.push((["monitor_a", "monitor_b", "monitor_c", "monitor_d", "monitor_e", "monitor_f", "monitor_g", "monitor_h", "monitor_i", "monitor_j", "monitor_k", "monitor_l"][i % 12], m.clone()));
        }
    }
    let vprefix = cfg.native_chain_config.validator_address_prefix.clone();
    let new_val = bech::addr(&vprefix, "val-new", 20);
    let old_val = cfg.native_chain_config.validators.first().map(|v| v.to_string()).unwrap_or_else(|| new_val.clone());
    let refundable: Option<&MPacket> = s.refundable().next();
    let due_batch = s.m.batches.values().find(|b| b.status == MStatus::Submitted && b.due <= s.w.time).map(|b| b.id).unwrap_or(1);
    let fee_amt = st.total_fees.u128().min(1);
    let only_admin = vec![admin.clone()];
    let mut breaker: Vec<String> = monitors.clone();
    breaker.push(admin.clone());
    let pending: Vec<String> = s.m.nominee.iter().cloned().collect();
    // (label, message, funds, authorised principals)
    let mut msgs: Vec<(&str, ExecuteMsg, Vec<(String, u128)>, Vec<String>)> = vec![
        ("AddValidator", ExecuteMsg::AddValidator { new_validator: new_val }, vec![], only_admin.clone()),
        ("RemoveValidator", ExecuteMsg::RemoveValidator { validator: old_val }, vec![], only_admin.clone()),
        (
            "UpdateConfig.batch_period",
            ExecuteMsg::UpdateConfig { native_chain_config: None, protocol_chain_config: None, protocol_fee_config: None, monitors: None, batch_period: Some(77) },
            vec![],
            only_admin.clone(),
        ),
        (
            "UpdateConfig.empty",
            ExecuteMsg::UpdateConfig { native_chain_config: None, protocol_chain_config: None, protocol_fee_config: None, monitors: None, batch_period: None },
            vec![],
            only_admin.clone(),
        ),
        (
            "UpdateConfig.monitors",
            ExecuteMsg::UpdateConfig { native_chain_config: None, protocol_chain_config: None, protocol_fee_config: None, monitors: Some(vec![p20("mon2")]), batch_period: None },
            vec![],
            only_admin.clone(),
        ),
        (
            "UpdateConfig.fee",
            ExecuteMsg::UpdateConfig {
                native_chain_config: None,
                protocol_chain_config: None,
                protocol_fee_config: Some(UnsafeProtocolFeeConfig { dao_treasury_fee: Uint128::new(5), treasury_address: Some(p20("x")) }),
                monitors: None,
                batch_period: None,
            },
            vec![],
            only_admin.clone(),
        ),
        ("TransferOwnership", ExecuteMsg::TransferOwnership { new_owner: p20("nom2") }, vec![], only_admin.clone()),
        ("RevokeOwnershipTransfer", ExecuteMsg::RevokeOwnershipTransfer {}, vec![], only_admin.clone()),
        (
            "ResumeContract",
            ExecuteMsg::ResumeContract { total_native_token: st.total_native_token, total_liquid_stake_token: st.total_liquid_stake_token, total_reward_amount: st.total_reward_amount },
            vec![],
            only_admin.clone(),
        ),
        ("FeeWithdraw", ExecuteMsg::FeeWithdraw { amount: Uint128::new(fee_amt) }, vec![], only_admin.clone()),
        (
            "Recover.forced",
            ExecuteMsg::RecoverPendingIbcTransfers {
                paginated: None,
                selected_packets: Some(vec![refundable.map(|p| p.seq).unwrap_or(999)]),
                receiver: refundable.map(|p| p.receiver.clone()),
            },
            vec![],
            only_admin.clone(),
        ),
        ("CircuitBreaker", ExecuteMsg::CircuitBreaker {}, vec![], breaker),
        ("AcceptOwnership", ExecuteMsg::AcceptOwnership {}, vec![], pending),
        ("ReceiveRewards", ExecuteMsg::ReceiveRewards {}, vec![(sdn.clone(), 50)], vec![hr.clone()]),
        ("ReceiveUnstakedTokens", ExecuteMsg::ReceiveUnstakedTokens { batch_id: due_batch }, vec![(sdn.clone(), 40)], vec![hs.clone()]),
    ];
    // de-duplicate principals by address (one address may hold two roles)
    for (label, msg, funds, allowed) in msgs.drain(..) {
        let mut authorised_ok = false;
        let mut others_failed = true;
        for (role, p) in &principals {
            let mut w = s.w.clone();
            for (d, a) in &funds {
                w.credit(p, d, *a);
            }
            let w0 = w.clone();
            let out = w.exec(p, msg.clone(), &funds);
            o.probes += 1;
            let is_allowed = allowed.contains(p);
            if is_allowed {
                if out.ok {
                    authorised_ok = true;
                } else if out.err.as_deref().map(is_auth_error).unwrap_or(false) {
                    o.violations.push(viol("C08", &format!("auth.refused_authorised.{label}"), format!("{label} by {role} {p} refused with {:?}", out.err)));
                }
            } else if out.ok {
                others_failed = false;
                o.violations.push(viol("C08", &format!("auth.accepted_unauthorised.{label}"), format!("{label} by {role} {p} succeeded; authorised are {:?}", allowed)));
            } else if w != w0 {
                o.violations.push(viol("MACHINERY", "sim.rollback", format!("{label} by {role} failed but changed the world")));
            }
        }
        if authorised_ok && others_failed {
            o.tags.push(format!("c08:only_authorised_succeeded:{label}"));
            let staker_moved = cfg.native_chain_config.staker_address.as_str() != n20(&s.w.k, "staker");
            let channel_moved = cfg.protocol_chain_config.ibc_channel_id != SIM_CHANNEL;
            if label == "ReceiveUnstakedTokens" && staker_moved {
                o.tags.push("c09:new_staker_hook_accepted_old_refused".into());
            }
            if label == "ReceiveRewards" && staker_moved {
                o.tags.push("c09:new_reward_hook_accepted_old_refused".into());
            }
            if label == "ReceiveUnstakedTokens" && channel_moved {
                o.tags.push("c09:new_channel_hook_accepted_old_refused".into());
            }
        }
    }
    // Withdraw pays only the caller's own request
    for b in s.m.batches.values().filter(|b| b.status == MStatus::Received) {
        let mut callers: Vec<String> = principals.iter().map(|(_, p)| p.clone()).collect();
        callers.extend(b.requests.keys().cloned());
        callers.sort();
        callers.dedup();
        for p in callers {
            let mut w = s.w.clone();
            let out = w.exec(&p, ExecuteMsg::Withdraw { batch_id: b.id }, &[]);
            o.probes += 1;
            if out.ok {
                let own = b.requests.contains_key(&p);
                let foreign = out.events.iter().any(|e| matches!(e, Ev::Send { to, denom, .. } if *denom == sdn && *to != p));
                if !own || foreign {
                    o.violations.push(viol("C08", "auth.withdraw.not_own_request", format!("Withdraw({}) by {p}: own request {own}, events {:?}", b.id, out.events)));
                } else {
                    o.tags.push("c08:withdraw_paid_caller".into());
                }
            }
        }
    }
    o
}

// =============================================================================================== C10
fn json_diff_keys(a: &serde_json::Value, b: &serde_json::Value, prefix: &str, out: &mut Vec<String>) {
    match (a, b) {
        (serde_json::Value::Object(x), serde_json::Value::Object(y)) => {
            let mut keys: Vec<&String> = x.keys().chain(y.keys()).collect();
            keys.sort();
            keys.dedup();
            for k in keys {
                let p = if prefix.is_empty() { k.clone() } else { format!("{prefix}.{k}") };
                match (x.get(k), y.get(k)) {
                    (Some(u), Some(v)) => json_diff_keys(u, v, &p, out),
                    _ => out.push(p),
                }
            }
        }
        _ => {
            if a != b {
                out.push(prefix.to_string());
            }
        }
    }
}

/// storage keys (as lossy strings) whose values differ
fn kv_diff(a: &mwsim::kv::Kv, b: &mwsim::kv::Kv) -> Vec<String> {
    let mut keys: Vec<&Vec<u8>> = a.m.keys().chain(b.m.keys()).collect();
    keys.sort();
    keys.dedup();
    keys.into_iter().filter(|k| a.m.get(*k) != b.m.get(*k)).map(|k| String::from_utf8_lossy(k).to_string()).collect()
}

fn six_kind(a: &Act) -> Option<&'static str> {
    match a {
        Act::Exec { msg, .. } => match msg {
            ExecuteMsg::LiquidStake { .. } => Some("LiquidStake"),
            ExecuteMsg::LiquidUnstake {} => Some("LiquidUnstake"),
            ExecuteMsg::SubmitBatch {} => Some("SubmitBatch"),
            ExecuteMsg::Withdraw { .. } => Some("Withdraw"),
            _ => None,
        },
        Act::Hook { msg, .. } => match msg {
            ExecuteMsg::ReceiveRewards {} => Some("ReceiveRewards"),
            ExecuteMsg::ReceiveUnstakedTokens { .. } => Some("ReceiveUnstakedTokens"),
            _ => None,
        },
        _ => None,
    }
}

pub fn breaker_probe(s: &Sim, candidates: &[Act]) -> StateObs {
    let mut o = StateObs::default();
    let cfg = s.w.config();
    let admin = s.w.admin().unwrap_or_default();
    if !cfg.stopped {
        // halting by the admin and by every monitor gives the same world, differing from s only in the flag
        let mut halted: Vec<Sim> = Vec::new();
        let mut halters = vec![admin.clone()];
        halters.extend(cfg.monitors.iter().map(|m| m.to_string()));
        for h in &halters {
            let mut t = s.clone();
            let ap = t.apply(&halt(h));
            o.probes += 1;
            if !ap.out.ok {
                o.violations.push(viol("C10", "breaker.halt_refused", format!("CircuitBreaker by {h} refused: {:?}", ap.out.err)));
                continue;
            }
            halted.push(t);
        }
        for h in [p20("x"), u(1)] {
            let mut t = s.clone();
            let ap = t.apply(&halt(&h));
            o.probes += 1;
            if ap.out.ok {
                o.violations.push(viol("C10", "breaker.halt_by_stranger", format!("CircuitBreaker by {h} accepted")));
            }
        }
        if let Some(t) = halted.first() {
            for t2 in &halted[1..] {
                if t2.w != t.w {
                    o.violations.push(viol("C10", "breaker.halter_dependent", "halting by admin and by a monitor produced different worlds".into()));
                }
            }
            let dk = kv_diff(&s.w.kv, &t.w.kv);
            let mut w2 = t.w.clone();
            w2.kv = s.w.kv.clone();
            if dk != vec!["config".to_string()] || w2 != s.w {
                o.violations.push(viol("C10", "breaker.halt_changed_more", format!("halting changed storage keys {:?} (or something outside storage)", dk)));
            } else {
                let a: serde_json::Value = serde_json::from_slice(&s.w.kv.m[b"config".as_slice()]).unwrap_or_default();
                let b: serde_json::Value = serde_json::from_slice(&t.w.kv.m[b"config".as_slice()]).unwrap_or_default();
                let mut d = vec![];
                json_diff_keys(&a, &b, "", &mut d);
                if d != vec!["stopped".to_string()] || !t.w.config().stopped {
                    o.violations.push(viol("C10", "breaker.halt_changed_config", format!("halting changed config fields {:?}", d)));
                } else {
                    o.tags.push("c10:halt_changes_only_flag".into());
                }
            }
            // every instance that succeeds in s must fail without effect in t
            for c in candidates {
                let Some(kind) = six_kind(c) else { continue };
                let mut s1 = s.clone();
                let ap1 = s1.apply(c);
                o.probes += 1;
                if !ap1.out.ok {
                    continue;
                }
                let mut t1 = t.clone();
                let ap2 = t1.apply(c);
                o.probes += 1;
                if ap2.out.ok {
                    o.violations.push(viol("C10", &format!("breaker.not_halted.{kind}"), format!("{kind} succeeded while the contract is halted: {:?}", c)));
                } else if t1.w != t.w {
                    o.violations.push(viol("C10", &format!("breaker.effect_while_halted.{kind}"), format!("{kind} failed while halted but changed the world")));
                } else {
                    if !ap2.out.err.as_deref().unwrap_or("").contains("halted") {
                        o.tags.push(format!("c10:refused_with_other_error:{kind}"));
                    }
                    o.tags.push(format!("c10:refused_while_halted:{kind}"));
                }
            }
        }
    } else {
        // resume: only the admin; sets exactly the three totals and the flag
        let st = s.w.state();
        // ... and only ResumeContract: no other message, from the admin, a monitor or a stranger, may
        // clear the flag as a side effect (configuration updates rebuild the stored Config)
        let mut others: Vec<(ExecuteMsg, Vec<(String, u128)>)> =
            hostile_exec_menu(s).into_iter().filter(|(m, f)| !matches!(m, ExecuteMsg::ResumeContract { .. }) && f.is_empty() && six_kind(&exec(&admin, m.clone(), vec![])).is_none()).collect();
        others.dedup_by(|a, b| format!("{:?}", a.0) == format!("{:?}", b.0));
        let mut kept_flag = 0u32;
        for (m, f) in &others {
            for who in [admin.clone(), p20("mon"), p20("x")] {
                if who != admin && !matches!(m, ExecuteMsg::UpdateConfig { .. } | ExecuteMsg::CircuitBreaker {}) {
                    continue;
                }
                let mut t = s.clone();
                let ap = t.apply(&exec(&who, m.clone(), f.clone()));
                o.probes += 1;
                if !t.w.config().stopped {
                    o.violations.push(viol("C10", "breaker.resumed_by_other_message", format!("{:?} by {who} (ok={}) cleared the halted flag", m, ap.out.ok)));
                } else if ap.out.ok {
                    kept_flag += 1;
                }
            }
        }
        if kept_flag > 0 {
            o.tags.push("c10:other_messages_keep_flag".into());
        }
        for who in [p20("mon"), p20("x"), u(1)] {
            let mut t = s.clone();
            let ap = t.apply(&resume(&who, st.total_native_token.u128(), st.total_liquid_stake_token.u128(), st.total_reward_amount.u128()));
            o.probes += 1;
            if ap.out.ok {
                o.violations.push(viol("C10", "resume.by_non_admin", format!("ResumeContract by {who} accepted")));
            }
        }
        // "exactly the values supplied": a resume document that leaves a total out supplies nothing for it; it
        // must not be read as zero (it has to be refused, or leave that total alone)
        let names = ["total_native_token", "total_liquid_stake_token", "total_reward_amount"];
        for mask in 0u8..7 {
            let mut body = serde_json::Map::new();
            for (i, nme) in names.iter().enumerate() {
                if mask & (1 << i) != 0 {
                    body.insert(nme.to_string(), serde_json::json!("777"));
                }
            }
            let doc = serde_json::json!({"resume_contract": body}).to_string();
            let mut t = s.clone();
            let out = t.w.exec_json(&admin, &doc, &[]);
            o.probes += 1;
            if out.ok {
                let q = t.w.state();
                let now = [q.total_native_token.u128(), q.total_liquid_stake_token.u128(), q.total_reward_amount.u128()];
                let before = [st.total_native_token.u128(), st.total_liquid_stake_token.u128(), st.total_reward_amount.u128()];
                for i in 0..3 {
                    if mask & (1 << i) == 0 && now[i] != before[i] {
                        o.violations.push(viol("C10", "resume.partial_document", format!("ResumeContract document {doc} was accepted and changed {} from {} to {} although no value was supplied for it", names[i], before[i], now[i])));
                    }
                }
            }
        }
        let big = 1_000_000_000_000_000_000_000_000_000u128;
        let cur = [st.total_native_token.u128(), st.total_liquid_stake_token.u128(), st.total_reward_amount.u128()];
        let menu = |i: usize| -> Vec<u128> {
            let mut v = vec![0u128, 1, 1000, cur[i], big];
            v.sort();
            v.dedup();
            v
        };
        for n in menu(0) {
            for l in menu(1) {
                // the rate window of C16: both zero, or 1e-3 <= n/l <= 1e3
                let in_window = (l == 0) || (n > 0 && n <= l.saturating_mul(1000) && l <= n.saturating_mul(1000));
                if !in_window {
                    continue;
                }
                for r in menu(2) {
                    let mut t = s.clone();
                    let ap = t.apply(&resume(&admin, n, l, r));
                    o.probes += 1;
                    if !ap.out.ok {
                        o.violations.push(viol("C10", "resume.refused", format!("ResumeContract({n},{l},{r}) by admin refused: {:?} {:?}", ap.out.err, ap.out.panicked)));
                        continue;
                    }
                    let q = t.w.state();
                    let c2 = t.w.config();
                    let mut dk = kv_diff(&s.w.kv, &t.w.kv);
                    dk.retain(|k| k != "config" && k != "state");
                    let a: serde_json::Value = serde_json::from_slice(&s.w.kv.m[b"state".as_slice()]).unwrap_or_default();
                    let b: serde_json::Value = serde_json::from_slice(&t.w.kv.m[b"state".as_slice()]).unwrap_or_default();
                    let mut d = vec![];
                    json_diff_keys(&a, &b, "", &mut d);
                    d.retain(|k| !["total_native_token", "total_liquid_stake_token", "total_reward_amount"].contains(&k.as_str()));
                    let ca: serde_json::Value = serde_json::from_slice(&s.w.kv.m[b"config".as_slice()]).unwrap_or_default();
                    let cb: serde_json::Value = serde_json::from_slice(&t.w.kv.m[b"config".as_slice()]).unwrap_or_default();
                    let mut cd = vec![];
                    json_diff_keys(&ca, &cb, "", &mut cd);
                    cd.retain(|k| k != "stopped");
                    if c2.stopped || q.total_native_token.u128() != n || q.total_liquid_stake_token.u128() != l || q.total_reward_amount.u128() != r || !dk.is_empty() || !d.is_empty() || !cd.is_empty() {
                        o.violations.push(viol(
                            "C10",
                            "resume.effect",
                            format!("ResumeContract({n},{l},{r}): stopped={} totals {}/{}/{} other keys {:?} other state fields {:?} other config fields {:?}", c2.stopped, q.total_native_token, q.total_liquid_stake_token, q.total_reward_amount, dk, d, cd),
                        ));
                    } else {
                        o.tags.push("c10:resume_sets_exactly_totals".into());
                    }
                }
            }
        }
    }
    o
}

// =============================================================================================== C16
pub fn hostile_exec_menu(s: &Sim) -> Vec<(ExecuteMsg, Vec<(String, u128)>)> {
    let sdn = sd();
    let lst = s.w.lst_denom();
    let k = &s.w.k;
    let cfg = s.w.config();
    let st = s.w.state();
    let big = 1_000_000_000_000_000_000_000_000_000u128;
    let min = cfg.protocol_chain_config.minimum_liquid_stake_amount.u128();
    let mut m: Vec<(ExecuteMsg, Vec<(String, u128)>)> = Vec::new();
    let fundsets: Vec<Vec<(String, u128)>> = vec![
        vec![],
        vec![(lst.clone(), 1)],
        vec![(sdn.clone(), 1), (lst.clone(), 1)],
        vec![(sdn.clone(), 1)],
        vec![(sdn.clone(), min.saturating_sub(1).max(1))],
        vec![(sdn.clone(), min)],
        vec![(sdn.clone(), big)],
        vec![("uosmo".to_string(), 5)],
    ];
    let mut mint_tos: Vec<Option<String>> = vec![None, Some("garbage".into()), Some(n20(k, "n1")), Some(u(3)), Some(p32("c1")), Some(String::new())];
    // checksum-valid strings that are not byte strings, under both prefixes; 32-byte native account
    let odd_native = mwsim::bech::odd_strings(&k.native_prefix);
    let odd_proto = mwsim::bech::odd_strings(PROTO_PREFIX);
    mint_tos.extend(odd_native.iter().cloned().map(Some));
    mint_tos.extend(odd_proto.iter().take(3).cloned().map(Some));
    mint_tos.push(Some(mwsim::bech::addr(&k.native_prefix, "native-m32", 32)));
    for f in &fundsets {
        for mt in &mint_tos {
            for ex in [None, Some(Uint128::MAX)] {
                for flag in [None, Some(true)] {
                    m.push((ExecuteMsg::LiquidStake { mint_to: mt.clone(), transfer_to_native_chain: flag, expected_mint_amount: ex }, f.clone()));
                }
            }
        }
    }
    for f in [vec![], vec![(sdn.clone(), 1)], vec![(lst.clone(), 1)], vec![(lst.clone(), big)], vec![(sdn.clone(), 1), (lst.clone(), 1)]] {
        m.push((ExecuteMsg::LiquidUnstake {}, f));
    }
    m.push((ExecuteMsg::SubmitBatch {}, vec![]));
    m.push((ExecuteMsg::SubmitBatch {}, vec![(sdn.clone(), 1)]));
    for id in [0, 1, 2, s.m.pending, u64::MAX] {
        m.push((ExecuteMsg::Withdraw { batch_id: id }, vec![]));
        for f in [vec![], vec![(sdn.clone(), 1)], vec![(sdn.clone(), big)], vec![(lst.clone(), 3)]] {
            m.push((ExecuteMsg::ReceiveUnstakedTokens { batch_id: id }, f));
        }
    }
    // the largest reward (<= 10^27) that keeps the exchange rate inside the window [1e-3, 1e3] of C16
    let (tn, tl) = (st.total_native_token.u128(), st.total_liquid_stake_token.u128());
    let max_reward = big.min(tl.saturating_mul(1000).saturating_sub(tn)).max(1);
    for f in [vec![], vec![(sdn.clone(), 1)], vec![(sdn.clone(), 9)], vec![(sdn.clone(), max_reward)], vec![(lst.clone(), 3)]] {
        m.push((ExecuteMsg::ReceiveRewards {}, f));
    }
    let mut vals_menu = vec!["garbage".to_string(), val(k, "1"), val(k, "9"), n20(k, "n1"), String::new()];
    vals_menu.extend(mwsim::bech::odd_strings(&format!("{}valoper", k.native_prefix)));
    for v in vals_menu {
        m.push((ExecuteMsg::AddValidator { new_validator: v.clone() }, vec![]));
        m.push((ExecuteMsg::RemoveValidator { validator: v }, vec![]));
    }
    let mut owners = vec!["garbage".to_string(), u(3), n20(k, "n1"), String::new(), p32("c1")];
    owners.extend(odd_proto.iter().cloned());
    for o in owners {
        m.push((ExecuteMsg::TransferOwnership { new_owner: o }, vec![]));
    }
    m.push((ExecuteMsg::AcceptOwnership {}, vec![]));
    m.push((ExecuteMsg::RevokeOwnershipTransfer {}, vec![]));
    m.push((ExecuteMsg::CircuitBreaker {}, vec![]));
    let im = instantiate_msg(k);
    let mut bad_native = im.native_chain_config.clone();
    bad_native.staker_address = "garbage".into();
    let mut bad_proto = im.protocol_chain_config.clone();
    bad_proto.ibc_channel_id = "channel-x".into();
    let mut sections: Vec<(Option<UnsafeNativeChainConfig>, Option<UnsafeProtocolChainConfig>, Option<UnsafeProtocolFeeConfig>, Option<Vec<String>>, Option<u64>)> = vec![
        (None, None, None, None, None),
        (Some(im.native_chain_config.clone()), None, None, None, None),
        (Some(bad_native), None, None, None, None),
        (None, Some(im.protocol_chain_config.clone()), None, None, None),
        (None, Some(bad_proto), None, None, None),
        (None, None, Some(UnsafeProtocolFeeConfig { dao_treasury_fee: Uint128::new(1_000_000), treasury_address: Some("garbage".into()) }), None, None),
        (None, None, Some(UnsafeProtocolFeeConfig { dao_treasury_fee: Uint128::new(1_000_000), treasury_address: None }), None, None),
        (None, None, None, Some(vec![p20("mon"), p20("mon")]), None),
        (None, None, None, Some(vec![]), Some(0)),
        (None, None, None, None, Some(315_360_000)),
    ];
    for (i, o) in odd_native.iter().enumerate() {
        let mut nc = im.native_chain_config.clone();
        if i % 2 == 0 {
            nc.staker_address = o.clone();
        } else {
            nc.reward_collector_address = o.clone();
        }
        sections.push((Some(nc), None, None, None, None));
    }
    for (i, o) in odd_proto.iter().enumerate() {
        match i % 3 {
            0 => {
                let mut pc = im.protocol_chain_config.clone();
                pc.oracle_address = Some(o.clone());
                sections.push((None, Some(pc), None, None, None));
            }
            1 => sections.push((None, None, Some(UnsafeProtocolFeeConfig { dao_treasury_fee: Uint128::new(1_000), treasury_address: Some(o.clone()) }), None, None)),
            _ => sections.push((None, None, None, Some(vec![o.clone()]), None)),
        }
    }
    for (a, b, c, d, e) in sections {
        m.push((ExecuteMsg::UpdateConfig { native_chain_config: a, protocol_chain_config: b, protocol_fee_config: c, monitors: d, batch_period: e }, vec![]));
    }
    let (n, l, r) = (st.total_native_token.u128(), st.total_liquid_stake_token.u128(), st.total_reward_amount.u128());
    for (a, b, c) in [(0, 0, 0), (n, l, r), (1000, 1000, 0), (big, big, big), (big, big / 1000, 0), (big / 1000, big, 7), (1, 1000, 0), (1000, 1, 0), (5, 0, 0)] {
        m.push((
            ExecuteMsg::ResumeContract { total_native_token: Uint128::new(a), total_liquid_stake_token: Uint128::new(b), total_reward_amount: Uint128::new(c) },
            vec![],
        ));
    }
    let known: Vec<u64> = s.m.packets.keys().copied().collect();
    let mut sels: Vec<Option<Vec<u64>>> = vec![None, Some(vec![]), Some(vec![0]), Some(vec![u64::MAX]), Some(vec![1, 1])];
    if let Some(k0) = known.first() {
        sels.push(Some(vec![*k0]));
        sels.push(Some(vec![*k0, *k0]));
        sels.push(Some(known.clone()));
    }
    for sel in sels {
        let mut rcs = vec![None, Some("garbage".to_string()), Some(n20(k, "n1")), Some(n20(k, "staker")), Some(u(3))];
        if sel.is_none() {
            rcs.extend(odd_native.iter().cloned().map(Some));
            rcs.push(Some(mwsim::bech::addr(&k.native_prefix, "native-m32", 32)));
        }
        for rc in rcs {
            for pg in [None, Some(true)] {
                m.push((ExecuteMsg::RecoverPendingIbcTransfers { paginated: pg, selected_packets: sel.clone(), receiver: rc.clone() }, vec![]));
            }
        }
    }
    for a in [0, 1, st.total_fees.u128(), st.total_fees.u128() + 1, u128::MAX] {
        m.push((ExecuteMsg::FeeWithdraw { amount: Uint128::new(a) }, vec![]));
    }
    m
}

pub fn hostile_probe(s: &Sim, full: bool) -> StateObs {
    let mut o = StateObs::default();
    let (hs, hr) = hook_accounts(s);
    let admin = s.w.admin().unwrap_or_default();
    let senders: Vec<String> = if full {
        vec![admin, p20("mon"), u(1), p20("x"), contract_addr(), hs, hr, p32("c1")]
    } else {
        vec![admin, u(1), hs, hr, p32("c1")]
    };
    let mut note = |o: &mut StateObs, what: String, p: &Option<String>| {
        if let Some(m) = p {
            o.violations.push(viol("C16", &format!("panic.{}", crate::scen::panic_site(m)), format!("{what} panicked: {m}")));
        }
    };
    for (msg, funds) in hostile_exec_menu(s) {
        for p in &senders {
            let mut w = s.w.clone();
            for (d, a) in &funds {
                w.credit(p, d, *a);
            }
            let out = w.exec(p, msg.clone(), &funds);
            o.probes += 1;
            note(&mut o, format!("execute {:?} by {p} with {:?}", msg, funds), &out.panicked);
        }
    }
    // the same messages executed outside a transaction (governance proposal, end-blocker): no transaction
    // index in the environment. Every third message, from the admin and one hook account.
    for (i, (msg, funds)) in hostile_exec_menu(s).into_iter().enumerate() {
        if i % 3 != 0 {
            continue;
        }
        for p in [&senders[0], &senders[senders.len() - 2]] {
            let mut w = s.w.clone();
            for (d, a) in &funds {
                w.credit(p, d, *a);
            }
            let out = mwsim::world::outside_transaction(|| w.exec(p, msg.clone(), &funds));
            o.probes += 1;
            note(&mut o, format!("execute outside a transaction {:?} by {p} with {:?}", msg, funds), &out.panicked);
        }
    }
    // queries
    let mut qs: Vec<QueryMsg> = vec![QueryMsg::Config {}, QueryMsg::State {}, QueryMsg::PendingBatch {}];
    for id in [0, 1, s.m.pending, u64::MAX] {
        qs.push(QueryMsg::Batch { id });
    }
    for sa in [None, Some(0), Some(1), Some(u64::MAX)] {
        for lim in [None, Some(0), Some(1), Some(u32::MAX)] {
            for stt in [None, Some(BatchStatus::Pending), Some(BatchStatus::Submitted), Some(BatchStatus::Received)] {
                qs.push(QueryMsg::Batches { start_after: sa, limit: lim, status: stt });
            }
            qs.push(QueryMsg::AllUnstakeRequests { start_after: sa, limit: lim });
            qs.push(QueryMsg::AllUnstakeRequestsV2 { start_after: sa, limit: lim });
            qs.push(QueryMsg::IbcQueue { start_after: sa, limit: lim });
            qs.push(QueryMsg::IbcReplyQueue { start_after: sa, limit: lim });
        }
    }
    qs.push(QueryMsg::BatchesByIds { ids: vec![] });
    qs.push(QueryMsg::BatchesByIds { ids: vec![0, 1, 1, u64::MAX] });
    for usr in [u(1), "garbage".to_string(), String::new(), p32("c1")] {
        qs.push(QueryMsg::UnstakeRequests { user: Addr::unchecked(usr) });
    }
    for q in qs {
        let r = s.w.query_raw(q.clone());
        o.probes += 1;
        if let Err(e) = r {
            if e.starts_with("PANIC") {
                o.violations.push(viol("C16", &format!("panic.query.{}", crate::scen::panic_site(&e[7..])), format!("query {:?}: {e}", q)));
            }
        }
    }
    // sudo: acknowledgements / timeouts for unknown and known sequences, own and other channel
    let mut seqs: Vec<u64> = vec![0, 999, u64::MAX];
    seqs.extend(s.m.packets.keys().take(2));
    // acknowledgement texts are written by the counterparty chain (ibc-hooks passes json.Marshal(string(ack))):
    // empty, truncated JSON, long, and multi-byte characters straddling every power-of-two offset up to 4096
    let mut acks: Vec<String> = vec![String::new(), "{".into(), "\u{fffd}".repeat(300), "x".repeat(70_000)];
    for k in [15usize, 31, 63, 127, 255, 511, 1023, 4095] {
        acks.push(format!("{}{}", "a".repeat(k), "\u{e9}".repeat(8)));
        acks.push(format!("{}{}", "a".repeat(k - 1), "\u{20ac}".repeat(8)));
    }
    for ch in [SIM_CHANNEL.to_string(), "channel-9".to_string(), String::new()] {
        for seq in &seqs {
            let mut msgs = vec![SudoMsg::IBCLifecycleComplete(IBCLifecycleComplete::IBCTimeout { channel: ch.clone(), sequence: *seq })];
            for (i, ack) in acks.iter().enumerate() {
                msgs.push(SudoMsg::IBCLifecycleComplete(IBCLifecycleComplete::IBCAck { channel: ch.clone(), sequence: *seq, ack: ack.clone(), success: i % 2 == 0 }));
                if i < 2 {
                    msgs.push(SudoMsg::IBCLifecycleComplete(IBCLifecycleComplete::IBCAck { channel: ch.clone(), sequence: *seq, ack: ack.clone(), success: i % 2 == 1 }));
                }
            }
            for m in msgs {
                let mut w = s.w.clone();
                let out = w.sudo(m.clone());
                o.probes += 1;
                note(&mut o, format!("sudo {}", format!("{:?}", m).chars().take(200).collect::<String>()), &out.panicked);
            }
        }
    }
    // reply outside a transaction: unknown id, error, no data, garbage, valid bytes
    for id in [0u64, 1, s.w.time * 1_000_000_000 + TX_INDEX as u64, u64::MAX] {
        for result in [
            SubMsgResult::Err("boom".into()),
            SubMsgResult::Err(format!("{}{}", "e".repeat(255), "\u{e9}".repeat(40))),
            SubMsgResult::Ok(SubMsgResponse { events: vec![], data: Some(Binary::from(vec![0x08; 5000])) }),
            SubMsgResult::Ok(SubMsgResponse { events: vec![], data: Some(Binary::from(vec![0x08, 0xff, 0xff, 0xff, 0xff, 0xff, 0xff, 0xff, 0xff, 0xff, 0x7f])) }),
            SubMsgResult::Ok(SubMsgResponse { events: vec![], data: None }),
            SubMsgResult::Ok(SubMsgResponse { events: vec![], data: Some(Binary::from(vec![0xff, 0xff, 0xff])) }),
            SubMsgResult::Ok(SubMsgResponse { events: vec![], data: Some(Binary::from(vec![0x08, 0x07])) }),
        ] {
            let mut w = s.w.clone();
            let out = w.raw_reply(Reply { id, result: result.clone() });
            o.probes += 1;
            note(&mut o, format!("reply id {id} {:?}", result), &out.panicked);
        }
    }
    // migrate
    for m in [
        MigrateMsg::V0_4_18ToV0_4_20 { send_fees_to_treasury: true },
        MigrateMsg::V0_4_20ToV1_0_0 {
            native_account_address_prefix: "celestia".into(),
            native_validator_address_prefix: "celestiavaloper".into(),
            native_token_denom: "utia".into(),
            protocol_account_address_prefix: "osmo".into(),
        },
        MigrateMsg::V1_0_0ToV1_1_0 {},
    ] {
        let mut w = s.w.clone();
        let out = w.migrate(m.clone());
        o.probes += 1;
        note(&mut o, format!("migrate {:?}", m), &out.panicked);
    }
    o
}

// =============================================================================================== C17
pub fn query_probe(s: &Sim) -> StateObs {
    let mut o = StateObs::default();
    let all: Vec<staking::msg::BatchResponse> = s.w.batches();
    let n = all.len() as u64;
    let maxid = all.iter().map(|b| b.id).max().unwrap_or(0);
    // reference: ids ascending, one entry per stored batch, cross-checked against the Batch{id} query
    let mut sorted = all.clone();
    sorted.sort_by_key(|b| b.id);
    if sorted != all {
        o.violations.push(viol("C17", "batches.unordered", format!("unpaginated Batches not ascending: {:?}", all.iter().map(|b| b.id).collect::<Vec<_>>())));
    }
    if all.len() != s.m.batches.len() {
        o.violations.push(viol("C17", "batches.full_scan_incomplete", format!("full scan returns {} batches, {} were created", all.len(), s.m.batches.len())));
    }
    for b in &all {
        let one: Result<staking::msg::BatchResponse, String> = s.w.query(QueryMsg::Batch { id: b.id });
        o.probes += 1;
        if one.as_ref().ok() != Some(b) {
            o.violations.push(viol("C17", "batches.entry_mismatch", format!("Batch({}) = {:?} but Batches lists {:?}", b.id, one, b)));
        }
    }
    let statuses = [None, Some(BatchStatus::Pending), Some(BatchStatus::Submitted), Some(BatchStatus::Received)];
    for stt in &statuses {
        let matching: Vec<&staking::msg::BatchResponse> = all.iter().filter(|b| stt.as_ref().map(|x| x.as_str() == b.status).unwrap_or(true)).collect();
        let mut cursors: Vec<Option<u64>> = vec![None];
        cursors.extend((0..=maxid + 1).map(Some));
        let mut limits: Vec<Option<u32>> = vec![None];
        limits.extend((0..=(n as u32 + 1)).map(Some));
        for sa in &cursors {
            for lim in &limits {
                let r: Result<BatchesResponse, String> = s.w.query(QueryMsg::Batches { start_after: *sa, limit: *lim, status: stt.clone() });
                o.probes += 1;
                let want: Vec<&staking::msg::BatchResponse> =
                    matching.iter().filter(|b| sa.map(|c| b.id > c).unwrap_or(true)).take(lim.map(|l| l as usize).unwrap_or(usize::MAX)).copied().collect();
                match r {
                    Ok(got) => {
                        let g: Vec<&staking::msg::BatchResponse> = got.batches.iter().collect();
                        if g != want {
                            o.violations.push(viol(
                                "C17",
                                "batches.page",
                                format!("Batches(start_after={:?}, limit={:?}, status={:?}) returned ids {:?}, reference {:?}", sa, lim, stt.as_ref().map(|x| x.as_str()), g.iter().map(|b| b.id).collect::<Vec<_>>(), want.iter().map(|b| b.id).collect::<Vec<_>>()),
                            ));
                        }
                    }
                    Err(e) => o.violations.push(viol("C17", "batches.query_failed", format!("Batches({:?},{:?}) failed: {e}", sa, lim))),
                }
            }
        }
        // cursor chasing with every page size: concatenation = full list, each once
        for page in 1..=(n as u32 + 1) {
            let mut acc: Vec<u64> = vec![];
            let mut cur: Option<u64> = None;
            for _ in 0..(n + 2) {
                let r: BatchesResponse = match s.w.query(QueryMsg::Batches { start_after: cur, limit: Some(page), status: stt.clone() }) {
                    Ok(r) => r,
                    Err(_) => break,
                };
                o.probes += 1;
                if r.batches.is_empty() {
                    break;
                }
                acc.extend(r.batches.iter().map(|b| b.id));
                cur = r.batches.last().map(|b| b.id);
            }
            let want: Vec<u64> = matching.iter().map(|b| b.id).collect();
            if acc != want {
                o.violations.push(viol("C17", "batches.chase", format!("paging with size {page} status {:?} yields {:?}, reference {:?}", stt.as_ref().map(|x| x.as_str()), acc, want)));
            }
        }
    }
    // BatchesByIds: every id sequence of length <= 3 over 0..=max+1
    let ids: Vec<u64> = (0..=maxid + 1).collect();
    let mut seqs: Vec<Vec<u64>> = vec![vec![]];
    for a in &ids {
        seqs.push(vec![*a]);
        for b in &ids {
            seqs.push(vec![*a, *b]);
            if ids.len() <= 5 {
                for c in &ids {
                    seqs.push(vec![*a, *b, *c]);
                }
            }
        }
    }
    // whole-store lists in orders a client may send: descending, evens then odds, rotated, twice over
    {
        let asc = ids.clone();
        let mut desc = asc.clone();
        desc.reverse();
        let mut eo: Vec<u64> = asc.iter().copied().filter(|i| i % 2 == 0).collect();
        eo.extend(asc.iter().copied().filter(|i| i % 2 == 1));
        let mut rot = asc.clone();
        rot.rotate_left(asc.len() / 3);
        let mut twice = asc.clone();
        twice.extend(desc.iter());
        seqs.extend([asc, desc, eo, rot, twice]);
    }
    for q in seqs {
        let r: Result<BatchesResponse, String> = s.w.query(QueryMsg::BatchesByIds { ids: q.clone() });
        o.probes += 1;
        match r {
            Ok(got) => {
                let mut g: Vec<u64> = got.batches.iter().map(|b| b.id).collect();
                g.sort();
                g.dedup();
                let mut want: Vec<u64> = q.iter().copied().filter(|i| all.iter().any(|b| b.id == *i)).collect();
                want.sort();
                want.dedup();
                let entries_ok = got.batches.iter().all(|b| all.iter().any(|x| x == b));
                if g != want || !entries_ok {
                    o.violations.push(viol("C17", "batches_by_ids", format!("BatchesByIds({:?}) returned {:?}, existing requested {:?}", q, g, want)));
                }
            }
            Err(e) => o.violations.push(viol("C17", "batches_by_ids.failed", format!("BatchesByIds({:?}) failed: {e}", q))),
        }
    }
    // in-flight queue pages likewise
    let fullq = s.w.ibc_queue();
    let qmax = fullq.iter().map(|p| p.sequence).max().unwrap_or(0);
    let mut qsorted = fullq.clone();
    qsorted.sort_by_key(|p| p.sequence);
    if qsorted != fullq || fullq.len() != s.m.packets.len() {
        o.violations.push(viol("C17", "queue.full_scan", format!("IbcQueue full scan {:?} vs outstanding {:?}", fullq.iter().map(|p| p.sequence).collect::<Vec<_>>(), s.m.packets.keys().collect::<Vec<_>>())));
    }
    let mut cursors: Vec<Option<u64>> = vec![None, Some(0), Some(qmax), Some(qmax + 1)];
    cursors.extend(fullq.iter().map(|p| Some(p.sequence)));
    cursors.extend(fullq.iter().map(|p| Some(p.sequence.saturating_sub(1))));
    cursors.sort();
    cursors.dedup();
    for sa in &cursors {
        let mut limits: Vec<Option<u32>> = vec![None];
        limits.extend((0..=(fullq.len() as u32 + 1)).map(Some));
        for lim in limits {
            let r: Result<IBCQueueResponse, String> = s.w.query(QueryMsg::IbcQueue { start_after: *sa, limit: lim });
            o.probes += 1;
            let want: Vec<u64> = fullq.iter().filter(|p| sa.map(|c| p.sequence > c).unwrap_or(true)).take(lim.map(|l| l as usize).unwrap_or(usize::MAX)).map(|p| p.sequence).collect();
            match r {
                Ok(g) => {
                    let got: Vec<u64> = g.ibc_queue.iter().map(|p| p.sequence).collect();
                    if got != want {
                        o.violations.push(viol("C17", "queue.page", format!("IbcQueue(start_after={:?}, limit={:?}) = {:?}, reference {:?}", sa, lim, got, want)));
                    }
                }
                Err(e) => o.violations.push(viol("C17", "queue.failed", e)),
            }
        }
    }
    for page in 1..=(fullq.len() as u32 + 1) {
        let mut acc: Vec<u64> = vec![];
        let mut cur = None;
        for _ in 0..(fullq.len() + 2) {
            let r: IBCQueueResponse = match s.w.query(QueryMsg::IbcQueue { start_after: cur, limit: Some(page) }) {
                Ok(r) => r,
                Err(_) => break,
            };
            o.probes += 1;
            if r.ibc_queue.is_empty() {
                break;
            }
            acc.extend(r.ibc_queue.iter().map(|p| p.sequence));
            cur = r.ibc_queue.last().map(|p| p.sequence);
        }
        let want: Vec<u64> = fullq.iter().map(|p| p.sequence).collect();
        if acc != want {
            o.violations.push(viol("C17", "queue.chase", format!("paging IbcQueue with size {page} yields {:?}, reference {:?}", acc, want)));
        }
    }
    // per-user request index vs the reference model
    let mut users: Vec<String> = vec![u(1), u(2), u(3), p20("x"), contract_addr()];
    for b in s.m.batches.values() {
        users.extend(b.requests.keys().cloned());
    }
    users.sort();
    users.dedup();
    let total_open: usize = s.m.batches.values().map(|b| b.requests.len()).sum();
    for usr in users {
        let mut got: Vec<(u64, String, u128)> = s.w.requests_of(&usr).into_iter().map(|r| (r.batch_id, r.user, r.amount.u128())).collect();
        let reads = mwsim::kv::reads();
        o.probes += 1;
        // smart queries are gas-metered by real nodes: the per-user query may only read what it returns (the
        // simulator counts storage records read), not everybody's requests
        if total_open >= 100 && reads > 16 + 6 * got.len() as u64 {
            o.violations.push(viol("C17", "requests.cost_grows_with_all_requests", format!("UnstakeRequests({usr}) returned {} entries but read {reads} storage records ({total_open} requests are open in total): on a metered node the query stops working once enough requests are open", got.len())));
        }
        got.sort();
        let mut want: Vec<(u64, String, u128)> = s.m.batches.values().filter_map(|b| b.requests.get(&usr).map(|a| (b.id, usr.clone(), *a))).collect();
        want.sort();
        if got != want {
            o.violations.push(viol("C17", "requests.index", format!("UnstakeRequests({usr}) = {:?}, open requests per history {:?}", got, want)));
        }
    }
    if !all.is_empty() {
        o.tags.push(format!("c17:batches_{}", all.len().min(5)));
    }
    if !fullq.is_empty() {
        o.tags.push(format!("c17:queue_{}", if fullq.len() >= 11 { "11plus".to_string() } else { fullq.len().min(4).to_string() }));
    }
    o
}
