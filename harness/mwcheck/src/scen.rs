//! Generic scenario over the staking contract: seeds + action menu + monitors + probes.

use mwsim::explore::{viol, Scenario, StateObs, Step, Violation};
use mwsim::monitors::{state_monitors, step_monitors};
use mwsim::sim::*;

pub type Menu = Box<dyn Fn(&Sim) -> Vec<Act> + Sync + Send>;
pub type Probe = Box<dyn Fn(&Sim) -> StateObs + Sync + Send>;
pub type Goal = Box<dyn Fn(&Sim, &Act, &Applied, &Sim) -> Vec<String> + Sync + Send>;
pub type StepCheck = Box<dyn Fn(&Sim, &Act, &Applied, &Sim) -> Vec<Violation> + Sync + Send>;

pub struct StakingScenario {
    pub name: String,
    pub props: Vec<&'static str>,
    pub seeds: Vec<(String, Sim)>,
    pub menu: Menu,
    pub probe: Option<Probe>,
    pub goal: Option<Goal>,
    pub extra_step: Option<StepCheck>,
    /// cost of an action in deviations from the benign environment
    pub dev_cost: fn(&Act) -> u8,
    /// judge panics as C16 violations
    pub panics_are: Option<&'static str>,
}

pub fn no_dev(_: &Act) -> u8 {
    0
}

/// held packets, explicit outcomes other than success, ibc down and reply faults are deviations
pub fn std_dev(a: &Act) -> u8 {
    match a {
        Act::Exec { hold, .. } | Act::Hook { hold, .. } => *hold as u8,
        Act::IbcUp { up } => (!*up) as u8,
        Act::Sudo { .. } => 1,
        // arming a reply fault is free; it only matters together with a later (held) transfer
        Act::ReplyFault { .. } => 0,
        _ => 0,
    }
}

impl Scenario for StakingScenario {
    type S = Sim;
    type A = Act;
    fn name(&self) -> String {
        self.name.clone()
    }
    fn seeds(&self) -> Vec<(String, Sim)> {
        self.seeds.clone()
    }
    fn actions(&self, s: &Sim) -> Vec<Act> {
        (self.menu)(s)
    }
    fn step(&self, s: &Sim, a: &Act) -> Step<Sim> {
        let mut n = s.clone();
        let ap = n.apply(a);
        n.g.dev = n.g.dev.saturating_add((self.dev_cost)(a));
        let mut violations = step_monitors(&self.props, s, a, &ap, &n);
        if let Some(f) = &self.extra_step {
            violations.extend(f(s, a, &ap, &n));
        }
        let mut panics: Vec<&String> = ap.out.panicked.iter().collect();
        for (_, o) in &ap.acks {
            panics.extend(o.panicked.iter());
        }
        if let Some(p) = self.panics_are {
            for m in panics {
                violations.push(viol(p, &format!("panic.{}", panic_site(m)), format!("{} panicked: {}", act_label(a), m)));
            }
        }
        if let (Some(p), Some(e)) = (self.panics_are, &ap.post_state_err) {
            if e.starts_with("PANIC") {
                violations.push(viol(p, "panic.query.State", format!("the State query panics after {}: {e}", act_label(a))));
            }
        }
        if let Some(u) = &ap.out.unknown_msg {
            violations.push(viol("MACHINERY", "sim.unknown_message", u.clone()));
        }
        for (seq, o) in &ap.acks {
            if !o.ok {
                // the contract failed the success-acknowledgement callback of its own transfer
                let mut judged = false;
                for p in &self.props {
                    if *p == "C07" {
                        violations.push(viol("C07", "outcome.callback_failed", format!("sudo for the success acknowledgement of packet {seq} failed: {:?}", o.err)));
                        judged = true;
                    } else if o.undecodable && ["C01", "C02", "C03"].contains(p) {
                        violations.push(viol(p, "wire.callback_undecodable", format!("success acknowledgement of packet {seq}: {}", o.err.clone().unwrap_or_default())));
                        judged = true;
                    }
                }
                if !judged {
                    violations.push(viol("MACHINERY", "sim.autoack_failed", format!("auto-ack of packet {seq} failed: {:?}", o.err)));
                }
            }
        }
        if let Err(e) = n.w.self_check(n.g.endowment) {
            violations.push(viol("MACHINERY", "sim.conservation", e));
        }
        // a failed transaction must leave the world untouched (rollback is the simulator's job)
        if !ap.out.ok && n.w != s.w {
            violations.push(viol("MACHINERY", "sim.rollback", format!("failed {} changed the world", act_label(a))));
        }
        let mut tags = vec![format!("{}:{}", act_label(a), if ap.out.ok { "ok" } else { "fail" })];
        if let Some(g) = &self.goal {
            tags.extend(g(s, a, &ap, &n).into_iter().map(|t| format!("goal:{t}")));
        }
        let next = if n != *s { Some(n) } else { None };
        let digest = event_digest(a, &ap);
        Step { next, violations, tags, validated: 1, digest }
    }
    fn on_state(&self, s: &Sim) -> StateObs {
        let mut o = StateObs { violations: state_monitors(&self.props, s), tags: vec![], probes: 0 };
        // violations seen while the scripted prefix of the seed was executed
        for (p, k, d) in &s.g.seed_viol {
            if self.props.contains(&p.as_str()) {
                o.violations.push(viol(p, k, d.clone()));
            }
        }
        if let Some(p) = &self.probe {
            let r = p(s);
            o.violations.extend(r.violations);
            o.tags.extend(r.tags);
            o.probes += r.probes;
        }
        o
    }
}

/// "file:line" of a panic message produced by the quiet hook ("panicked at path:line:col:\nmsg")
pub fn panic_site(m: &str) -> String {
    let first = m.lines().next().unwrap_or("");
    let loc = first.trim_start_matches("panicked at ").trim_end_matches(':');
    let mut parts = loc.rsplitn(3, ':');
    let _col = parts.next();
    let line = parts.next().unwrap_or("");
    let file = parts.next().unwrap_or(loc);
    let file = file.rsplit('/').next().unwrap_or(file);
    format!("{file}:{line}")
}

/// digest of a transition that does not depend on the token-factory module of the target chain:
/// token-factory messages are abstracted to (op, sender, denom, amount, holder)
pub fn event_digest(a: &Act, ap: &Applied) -> u64 {
    use mwsim::world::Ev;
    use std::hash::{Hash, Hasher};
    let mut h = std::collections::hash_map::DefaultHasher::new();
    format!("{:?}", a).hash(&mut h);
    ap.out.ok.hash(&mut h);
    let mut all: Vec<&Ev> = ap.out.events.iter().collect();
    for (_, o) in &ap.acks {
        all.extend(o.events.iter());
    }
    for e in all {
        let s = match e {
            Ev::CreateDenom { sender, subdenom, .. } => format!("create|{sender}|{subdenom}"),
            Ev::Mint { sender, denom, amount, to, .. } => format!("mint|{sender}|{denom}|{amount}|{to}"),
            Ev::Burn { sender, denom, amount, from, .. } => format!("burn|{sender}|{denom}|{amount}|{from}"),
            other => format!("{:?}", other),
        };
        s.hash(&mut h);
    }
    h.finish() | 1
}
