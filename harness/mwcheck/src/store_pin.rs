//! Deployed bytes. Every other check builds its stores with the code under test, so writer and reader always
//! agree with each other; a change of the *stored representation* (a serde attribute on a stored type, a
//! renamed field, another key encoding) is invisible to them although it strands every contract that is
//! already deployed. This check keeps, under /verif/baselines, the byte-exact stores that the pinned tree
//! writes for a few reachable histories (and their 1.0.0-layout variants), loads those bytes into the
//! simulated chain and demands that the tree under test reads and operates them exactly like a store it
//! wrote itself: same answers to every query, same outcome and same effects for a fixed continuation
//! (submit at the deadline, unbonded tokens at the deadline, withdrawals, recovery, stake, unstake, reward).
//! For the 1.0.0 variants the 1.0.0 -> 1.1.0 migration is run first.
//!
//! The comparison is differential (pinned bytes vs. bytes written now), so a tree that changes the
//! representation compatibly stays quiet. If the tree declares another contract version than the baseline
//! the stored bytes may legitimately need a migration this check does not know: it then decides nothing.

use crate::acts::*;
use crate::common::Runner;
use crate::ledger::denom2;
use mwsim::explore::{viol, Violation};
use mwsim::kv::Kv;
use mwsim::sim::*;
use mwsim::world::*;
use serde_json::{json, Value};
use staking::migrations::states::v1_0_0;
use staking::msg::{MigrateMsg, QueryMsg};
use std::sync::Arc;

type V = Vec<(Violation, Value)>;

fn hex(b: &[u8]) -> String {
    b.iter().map(|x| format!("{:02x}", x)).collect()
}
fn unhex(s: &str) -> Vec<u8> {
    (0..s.len() / 2).map(|i| u8::from_str_radix(&s[2 * i..2 * i + 2], 16).unwrap()).collect()
}

fn specs() -> Vec<(&'static str, Box<dyn Fn() -> Sim>)> {
    vec![
        ("k0_received", Box::new(|| seed_received(&K::k0()))),
        ("k0_submitted", Box::new(|| seed_submitted(&K::k0()))),
        ("k2_queued", Box::new(|| seed_queued(&K::k2()))),
        ("k4_many_rewards", Box::new(|| seed_many_rewards(&K::k4()))),
        ("k0_four_requesters", Box::new(|| seed_four_requesters(&K::k0()))),
        ("k0_mixed_refundable", Box::new(|| seed_mixed_refundable(&K::k0(), seed_received(&K::k0()), false))),
        ("k0_ten_batches", Box::new(|| seed_ten_batches(&K::k0()))),
        ("k1_mid_received", Box::new(|| seed_mid_received(&K::k1()))),
    ]
}

fn kv_to_json(kv: &Kv) -> Value {
    Value::Array(kv.m.iter().map(|(k, v)| json!([hex(k), hex(v)])).collect())
}
fn kv_from_json(v: &Value) -> Kv {
    let mut kv = Kv::default();
    for e in v.as_array().unwrap() {
        kv.m.insert(unhex(e[0].as_str().unwrap()), Arc::new(unhex(e[1].as_str().unwrap())));
    }
    kv
}

/// the 1.0.0 layout of a store: tracked packets and pending replies in their amount-only form
fn legacy_of(kv: &Kv) -> Kv {
    let mut out = kv.clone();
    let packets: Vec<(u64, staking::state::ibc::IBCTransfer)> = staking::state::INFLIGHT_PACKETS.range(kv, None, None, cosmwasm_std::Order::Ascending).filter_map(|x| x.ok()).collect();
    for (k, p) in packets {
        staking::state::INFLIGHT_PACKETS.remove(&mut out, k);
        v1_0_0::INFLIGHT_PACKETS.save(&mut out, k, &v1_0_0::IBCTransfer { sequence: p.sequence, amount: p.amount.amount.u128(), status: p.status.clone() }).unwrap();
    }
    v1_0_0::IBC_WAITING_FOR_REPLY.save(&mut out, 4_000_000_001, &v1_0_0::IbcWaitingForReply { amount: 77 }).unwrap();
    cw2::set_contract_version(&mut out, "staking", "1.0.0").unwrap();
    out
}

pub fn baseline_path() -> String {
    format!("{}/baselines/staking-stores.json", std::env::var("VERIF_DIR").unwrap_or_else(|_| "/verif".into()))
}

pub fn write_baseline() -> i32 {
    let mut stores = serde_json::Map::new();
    for (name, f) in specs() {
        let s = f();
        stores.insert(name.to_string(), json!({"v1_1_0": kv_to_json(&s.w.kv), "v1_0_0": kv_to_json(&legacy_of(&s.w.kv))}));
    }
    let doc = json!({"contract": staking::contract::CONTRACT_NAME, "version": staking::contract::CONTRACT_VERSION, "stores": stores});
    std::fs::write(baseline_path(), serde_json::to_string(&doc).unwrap()).unwrap();
    println!("store baseline written: {} stores, contract version {}", specs().len(), staking::contract::CONTRACT_VERSION);
    0
}

/// every query a client can ask about this store, as (label, answer or error)
fn query_battery(s: &Sim) -> Vec<(String, Result<Vec<u8>, String>)> {
    let mut qs: Vec<QueryMsg> = vec![
        QueryMsg::Config {},
        QueryMsg::State {},
        QueryMsg::PendingBatch {},
        QueryMsg::Batches { start_after: None, limit: None, status: None },
        QueryMsg::Batches { start_after: Some(1), limit: Some(2), status: None },
        QueryMsg::AllUnstakeRequests { start_after: None, limit: None },
        QueryMsg::AllUnstakeRequestsV2 { start_after: None, limit: None },
        QueryMsg::IbcQueue { start_after: None, limit: None },
        QueryMsg::IbcReplyQueue { start_after: None, limit: None },
    ];
    for st in [milky_way::staking::BatchStatus::Pending, milky_way::staking::BatchStatus::Submitted, milky_way::staking::BatchStatus::Received] {
        qs.push(QueryMsg::Batches { start_after: None, limit: None, status: Some(st) });
    }
    let ids: Vec<u64> = s.m.batches.keys().copied().collect();
    for id in &ids {
        qs.push(QueryMsg::Batch { id: *id });
    }
    qs.push(QueryMsg::BatchesByIds { ids: ids.clone() });
    for who in [u(1), u(2), u(3), p20("u4")] {
        qs.push(QueryMsg::UnstakeRequests { user: cosmwasm_std::Addr::unchecked(who) });
    }
    qs.into_iter().map(|q| (format!("{q:?}"), s.w.query_raw(q))).collect()
}

/// the fixed continuation: what an operator and the users do next on a live contract
fn continuation(s: &Sim) -> Vec<Box<dyn Fn(&Sim) -> Option<Act>>> {
    let _ = s;
    vec![
        Box::new(|s| Some(advance(pending_due(s).max(s.w.time + 1)))),
        Box::new(|_| Some(submit(&p20("x")))),
        Box::new(|s| s.m.batches.values().find(|b| b.status == MStatus::Submitted).map(|b| advance(b.due.max(s.w.time + 1)))),
        Box::new(|s| s.m.batches.values().find(|b| b.status == MStatus::Submitted).map(|b| deliver(s, b.id, b.expected.unwrap_or(1)))),
        Box::new(|s| s.m.batches.values().filter(|b| b.status == MStatus::Received).flat_map(|b| b.requests.keys().map(move |w| withdraw(w, b.id))).next()),
        Box::new(|s| s.m.batches.values().filter(|b| b.status == MStatus::Received).flat_map(|b| b.requests.keys().map(move |w| withdraw(w, b.id))).last()),
        Box::new(|_| Some(recover(&p20("x"), None, None, None))),
        Box::new(|s| {
            let d = s.w.config().protocol_chain_config.ibc_token_denom;
            if d == denom2() {
                None
            } else {
                Some(stake(&u(1), 100))
            }
        }),
        Box::new(|s| Some(unstake(s, &u(1), 10))),
        Box::new(|s| if s.w.state().total_liquid_stake_token.is_zero() { None } else { Some(rewards(s, 50)) }),
        Box::new(|_| Some(exec(&adm(), staking::msg::ExecuteMsg::CircuitBreaker {}, vec![]))),
    ]
}

fn compare(prop: &'static str, label: &str, name: &str, pinned: &Sim, fresh: &Sim, vs: &mut V, n: &mut u64) {
    let a = query_battery(pinned);
    let b = query_battery(fresh);
    for ((q, x), (_, y)) in a.iter().zip(b.iter()) {
        *n += 1;
        if x != y {
            let show = |r: &Result<Vec<u8>, String>| match r {
                Ok(b) => String::from_utf8_lossy(b).chars().take(160).collect::<String>(),
                Err(e) => format!("ERROR {}", e.chars().take(160).collect::<String>()),
            };
            let key = if x.is_err() && y.is_ok() { "deployed_store.unreadable" } else { "deployed_store.reads_differently" };
            if !vs.iter().any(|v| v.0.key == key) {
                vs.push((
                    viol(prop, key, format!("{name} ({label}): {q} on the store as deployed contracts hold it: {}; on the same history written by this tree: {}", show(x), show(y))),
                    json!({"store": name, "layout": label, "query": q}),
                ));
            }
        }
    }
}

pub fn run_pin(r: &mut Runner, prop: &'static str) {
    let doc: Value = match std::fs::read_to_string(baseline_path()).ok().and_then(|s| serde_json::from_str(&s).ok()) {
        Some(d) => d,
        None => {
            r.require(false, "store baseline /verif/baselines/staking-stores.json missing or unreadable");
            return;
        }
    };
    if doc["version"].as_str() != Some(staking::contract::CONTRACT_VERSION) || doc["contract"].as_str() != Some(staking::contract::CONTRACT_NAME) {
        r.notes.push(format!("the tree declares contract version {} but the store baseline was taken at {}: deployed-bytes comparison undecided", staking::contract::CONTRACT_VERSION, doc["version"]));
        return;
    }
    let mut vs: V = vec![];
    let mut n = 0u64;
    let mut drift = 0u64;
    let mut ops_ok = 0u64;
    let mut used = 0u64;
    for (name, f) in specs() {
        let Some(fresh0) = try_seed(|| f()) else {
            r.notes.push(format!("seed {name} cannot be built on this tree; its deployed-bytes comparison is skipped"));
            continue;
        };
        used += 1;
        for layout in ["v1_1_0", "v1_0_0"] {
            let pinned_kv = kv_from_json(&doc["stores"][name][layout]);
            let mut fresh = fresh0.clone();
            let mut pinned = fresh0.clone();
            if layout == "v1_0_0" {
                fresh.w.kv = legacy_of(&fresh0.w.kv);
            }
            if fresh.w.kv != pinned_kv {
                drift += 1;
            }
            pinned.w.kv = pinned_kv;
            if layout == "v1_0_0" {
                let a = pinned.w.migrate(MigrateMsg::V1_0_0ToV1_1_0 {});
                let b = fresh.w.migrate(MigrateMsg::V1_0_0ToV1_1_0 {});
                n += 1;
                if a.ok != b.ok || !a.ok {
                    vs.push((
                        viol(prop, "deployed_store.migration", format!("{name}: 1.0.0 -> 1.1.0 on the deployed bytes: ok={} {:?}; on bytes written by this tree: ok={} {:?}", a.ok, a.err, b.ok, b.err)),
                        json!({"store": name, "layout": layout}),
                    ));
                    continue;
                }
            }
            compare(prop, layout, name, &pinned, &fresh, &mut vs, &mut n);
            for (i, step) in continuation(&fresh).iter().enumerate() {
                let Some(act) = step(&fresh) else { continue };
                let x = pinned.apply(&act);
                let y = fresh.apply(&act);
                n += 1;
                if y.out.ok {
                    ops_ok += 1;
                }
                if x.out.ok != y.out.ok || x.out.events != y.out.events || x.out.panicked.is_some() != y.out.panicked.is_some() {
                    let key = "deployed_store.operates_differently";
                    if !vs.iter().any(|v| v.0.key == key) {
                        vs.push((
                            viol(prop, key, format!("{name} ({layout}) step {i} {}: on the deployed bytes ok={} err={:?}; on the same history written by this tree ok={} err={:?}", act_label(&act), x.out.ok, x.out.err, y.out.ok, y.out.err)),
                            json!({"store": name, "layout": layout, "step": i, "action": act_label(&act)}),
                        ));
                    }
                    break;
                }
                compare(prop, layout, name, &pinned, &fresh, &mut vs, &mut n);
            }
        }
    }
    if drift > 0 {
        r.notes.push(format!("{drift} pinned stores differ in bytes from what this tree writes for the same history (judged only through reads and operations)"));
    }
    let clean = vs.is_empty();
    r.grid(
        "deployed-bytes: pinned stores (1.1.0 and 1.0.0 layout) x query battery x continuation, against the same history written by this tree",
        n,
        2,
        ops_ok,
        n - ops_ok.min(n),
        vec![json!({"store": "k0_received", "layout": "v1_0_0", "step": "SubmitBatch at the deadline"})],
        vs,
    );
    r.require(!clean || (used >= 4 && ops_ok >= 40), "the deployed-bytes comparison must build most stores and see operations succeed");
}

/// Batches written by releases that did not yet count the requests of a batch carry no
/// `unstake_requests_count` (the contract's queries have a fallback for that). Such a pending batch with open
/// requests gains a new requester, is submitted, receives its tokens and is withdrawn by everybody in
/// three orders: every withdrawal must pay floor(received x own / total) to the caller and nothing else.
pub fn counterless_batches(r: &mut Runner, prop: &'static str) {
    let mut n = 0u64;
    let mut paid_ok = 0u64;
    let mut vs: V = vec![];
    for k in [K::k0(), K::k1()] {
        for order in 0..3usize {
            let Some(mut s) = try_seed(|| {
                let mut sc = Script::resumed(&k).run(stake(&u(1), 1_000)).run(stake(&u(2), 700)).run(stake(&u(3), 300));
                sc = sc.with(|s| rewards(s, 90));
                sc = sc.with(|s| unstake(s, &u(1), 200)).with(|s| unstake(s, &u(2), 100));
                sc.done()
            }) else {
                continue;
            };
            // rewrite every stored batch without the counter
            let keys: Vec<Vec<u8>> = s.w.kv.m.keys().cloned().collect();
            let mut stripped = 0;
            for key in keys {
                let val = s.w.kv.m[&key].clone();
                if let Ok(Value::Object(mut o)) = serde_json::from_slice::<Value>(&val) {
                    if o.remove("unstake_requests_count").is_some() && o.contains_key("batch_total_liquid_stake") {
                        s.w.kv.m.insert(key, Arc::new(serde_json::to_vec(&Value::Object(o)).unwrap()));
                        stripped += 1;
                    }
                }
            }
            if stripped == 0 {
                r.notes.push("no stored batch carries unstake_requests_count on this tree: the counter-less variant is not applicable".into());
                return;
            }
            let case = json!({"config": k.name, "withdraw_order": order});
            let mut script: Vec<Box<dyn Fn(&Sim) -> Act>> = vec![
                Box::new(|s| unstake(s, &u(3), 40)),
                Box::new(|s| advance(pending_due(s).max(s.w.time + 1))),
                Box::new(|_| submit(&p20("x"))),
                Box::new(|s| advance(s.m.batches[&1].due.max(s.w.time + 1))),
                Box::new(|s| deliver(s, 1, s.m.batches[&1].expected.unwrap_or(1))),
            ];
            let who: [[u8; 3]; 3] = [[3, 1, 2], [1, 2, 3], [2, 3, 1]];
            for w in who[order] {
                script.push(Box::new(move |_| withdraw(&u(w), 1)));
            }
            for (i, step) in script.iter().enumerate() {
                let a = step(&s);
                let pre = s.clone();
                let ap = s.apply(&a);
                n += 1;
                if !ap.out.ok {
                    vs.push((viol(prop, "counterless_batch.step_failed", format!("{} step {i} {} on a store whose batches carry no request counter failed: {:?}", k.name, act_label(&a), ap.out.err)), case.clone()));
                    break;
                }
                if let Act::Exec { sender, msg: staking::msg::ExecuteMsg::Withdraw { batch_id }, .. } = &a {
                    let b = &pre.m.batches[batch_id];
                    let own = b.requests.get(sender).copied().unwrap_or(0);
                    let want = mwsim::arith::mul_div(b.received.unwrap_or(0), own, b.total).unwrap_or(0);
                    let got = s.w.bal(sender, &sd()) - pre.w.bal(sender, &sd());
                    if got != want {
                        vs.push((
                            viol(prop, "counterless_batch.withdraw_pays_other_requests", format!("{}: Withdraw by {sender} from batch {batch_id} (own request {own} of {} LST, {} received) paid {got}, own share is {want}", k.name, b.total, b.received.unwrap_or(0))),
                            case.clone(),
                        ));
                        break;
                    }
                    paid_ok += 1;
                }
            }
        }
    }
    let clean = vs.is_empty();
    r.grid("legacy batches without request counter: new requester, submit, receive, all withdraw (3 orders x 2 configs)", n, 2, paid_ok, n - paid_ok.min(n), vec![json!({"config": "K0", "withdraw_order": 0})], vs);
    r.require(!clean || paid_ok >= 18, "the counter-less batch scenario must reach its withdrawals");
}
