//! C13 — treasury: trader-only swaps on allow-listed routes, admin-only spending.
//! Exhaustive grids over allow-lists x candidate routes x coins x limits x senders, through the
//! real `treasury::contract::execute`, with an independent protobuf reader on the emitted message.

use crate::common::Runner;
use crate::own::treasury_kv;
use cosmwasm_std::{Addr, BankMsg, BlockInfo, Coin, ContractInfo, CosmosMsg, DepsMut, Env, MessageInfo, QuerierWrapper, Response, Timestamp, TransactionInfo, Uint128};
use mwsim::bech;
use mwsim::explore::{viol, Violation};
use mwsim::kv::{Kv, NoQuerier, SimApi};
use mwsim::wire;
use mwsim::world::*;
use rayon::prelude::*;
use serde_json::{json, Value};
use treasury::msg::ExecuteMsg;
use treasury::state::SwapRoute;

type V = Vec<(Violation, Value)>;

fn tre_addr() -> String {
    p32("treasury-contract")
}

fn env() -> Env {
    Env {
        block: BlockInfo { height: 7, time: Timestamp::from_seconds(T0), chain_id: "sim-1".into() },
        transaction: Some(TransactionInfo { index: 0 }),
        contract: ContractInfo { address: Addr::unchecked(tre_addr()) },
    }
}

pub fn texec(kv: &mut Kv, sender: &str, msg: ExecuteMsg) -> Result<Response, String> {
    let api = SimApi { prefix: PROTO_PREFIX };
    // the treasury account is funded, and the chain answers balance queries
    static BANK: std::sync::OnceLock<std::collections::BTreeMap<(String, String), u128>> = std::sync::OnceLock::new();
    let bank = BANK.get_or_init(|| {
        let mut bank = std::collections::BTreeMap::new();
        for d in ["a", "b", "ibc/ABC", "uosmo", "utia", "ibc/TIA", "uusdc"] {
            bank.insert((tre_addr(), d.to_string()), 5_000_000u128);
        }
        bank
    });
    let q = mwsim::kv::ChainQuerier { bank, contract: tre_addr() };
    let info = MessageInfo { sender: Addr::unchecked(sender), funds: vec![] };
    let deps = DepsMut { storage: kv, api: &api, querier: QuerierWrapper::new(&q) };
    match guarded(|| treasury::contract::execute(deps, env(), info, msg).map_err(|e| e.to_string())) {
        Err(_) => Err("PANIC".into()),
        Ok(Err(e)) => Err(e),
        Ok(Ok(r)) => Ok(r),
    }
}

fn hop(pool: u64, i: &str, o: &str) -> SwapRoute {
    SwapRoute { pool_id: pool, token_in_denom: i.into(), token_out_denom: o.into() }
}

fn hops(denoms: &[&str], full: bool) -> Vec<SwapRoute> {
    let mut v = vec![];
    for p in [1u64, 2] {
        for i in denoms {
            for o in denoms {
                if full || i != o {
                    v.push(hop(p, i, o));
                }
            }
        }
    }
    v
}

fn routes_upto(h: &[SwapRoute], n: usize) -> Vec<Vec<SwapRoute>> {
    let mut all: Vec<Vec<SwapRoute>> = vec![vec![]];
    let mut last: Vec<Vec<SwapRoute>> = vec![vec![]];
    for _ in 0..n {
        let mut next = vec![];
        for r in &last {
            for x in h {
                let mut r2 = r.clone();
                r2.push(x.clone());
                next.push(r2);
            }
        }
        all.extend(next.clone());
        last = next;
    }
    all
}

/// decode the single emitted swap message; returns (type_url, sender, route as (pool, denom) list, coin, limit)
#[allow(clippy::type_complexity)]
fn decode_swap(resp: &Response) -> Result<(String, String, Vec<(u64, String)>, (String, String), String), String> {
    if resp.messages.len() != 1 {
        return Err(format!("{} messages emitted", resp.messages.len()));
    }
    let CosmosMsg::Stargate { type_url, value } = &resp.messages[0].msg else {
        return Err(format!("not a stargate message: {:?}", resp.messages[0].msg));
    };
    let f = wire::parse(value.as_slice()).ok_or("undecodable")?;
    if !wire::only_tags(&f, &[1, 2, 3, 4]) {
        return Err("unknown fields".into());
    }
    let sender = wire::get_str(&f, 1).ok_or("sender")?;
    let mut route = vec![];
    for r in wire::get_msgs(&f, 2).ok_or("routes")? {
        if !wire::only_tags(&r, &[1, 2]) {
            return Err("unknown route fields".into());
        }
        route.push((wire::get_u64(&r, 1).ok_or("pool")?, wire::get_str(&r, 2).ok_or("denom")?));
    }
    let (coin_tag, limit_tag) = if type_url.ends_with("MsgSwapExactAmountIn") { (3, 4) } else { (4, 3) };
    let coins = wire::get_msgs(&f, coin_tag).ok_or("coin")?;
    if coins.len() != 1 {
        return Err("coin missing".into());
    }
    let c = wire::coin(&coins[0]).ok_or("coin fields")?;
    let limit = wire::get_str(&f, limit_tag).ok_or("limit")?;
    Ok((type_url.clone(), sender, route, (c.denom, c.amount), limit))
}

#[allow(clippy::too_many_arguments)]
fn swap_case(kv: &Kv, allow: &[Vec<SwapRoute>], trader: &str, sender: &str, exact_in: bool, route: &[SwapRoute], coin: &(String, u128), limit: u128) -> (bool, Option<(Violation, Value)>) {
    let mut kv2 = kv.clone();
    let c = Coin { denom: coin.0.clone(), amount: Uint128::new(coin.1) };
    let msg = if exact_in {
        ExecuteMsg::SwapExactAmountIn { routes: route.to_vec(), token_in: c, token_out_min_amount: limit }
    } else {
        ExecuteMsg::SwapExactAmountOut { routes: route.to_vec(), token_out: c, token_in_max_amount: limit }
    };
    let r = texec(&mut kv2, sender, msg);
    let endpoint_ok = if route.is_empty() {
        false
    } else if exact_in {
        route[0].token_in_denom == coin.0
    } else {
        route[route.len() - 1].token_out_denom == coin.0
    };
    let should = sender == trader && !route.is_empty() && allow.iter().any(|a| a.as_slice() == route) && endpoint_ok;
    let case = || json!({"allow_list": allow, "route": route, "sender": sender, "trader": trader, "exact_in": exact_in, "coin": [coin.0, coin.1.to_string()], "limit": limit.to_string()});
    match r {
        Err(e) => {
            if e == "PANIC" {
                return (false, Some((viol("C13", "swap.panic", "treasury swap panicked".into()), case())));
            }
            if should {
                return (false, Some((viol("C13", "swap.refused_wrongly", format!("allow-listed swap by the trader refused: {e}")), case())));
            }
            if kv2 != *kv {
                return (false, Some((viol("C13", "swap.refusal_changed_state", "refused swap changed storage".into()), case())));
            }
            (false, None)
        }
        Ok(resp) => {
            if !should {
                return (true, Some((viol("C13", "swap.accepted_wrongly", format!("swap accepted: sender is trader {}, route allow-listed {}, endpoint denom matches {}", sender == trader, allow.iter().any(|a| a.as_slice() == route), endpoint_ok)), case())));
            }
            match decode_swap(&resp) {
                Err(e) => (true, Some((viol("C13", "swap.message.undecodable", e), case()))),
                Ok((url, snd, rt, c, lim)) => {
                    let want_url = if exact_in { "/osmosis.poolmanager.v1beta1.MsgSwapExactAmountIn" } else { "/osmosis.poolmanager.v1beta1.MsgSwapExactAmountOut" };
                    let want_rt: Vec<(u64, String)> = route.iter().map(|h| (h.pool_id, if exact_in { h.token_out_denom.clone() } else { h.token_in_denom.clone() })).collect();
                    if url != want_url || snd != tre_addr() || rt != want_rt || c != (coin.0.clone(), coin.1.to_string()) || lim != limit.to_string() {
                        return (
                            true,
                            Some((viol("C13", "swap.message.unfaithful", format!("emitted {url} sender {snd} route {:?} coin {:?} limit {lim}; requested route {:?} coin {:?} limit {limit}", rt, c, want_rt, coin)), case())),
                        );
                    }
                    (true, None)
                }
            }
        }
    }
}

fn swap_grid(r: &mut Runner, thorough: bool) {
    let denoms: Vec<&str> = if thorough { vec!["a", "b", "c"] } else { vec!["a", "b"] };
    let h = hops(&denoms, !thorough);
    let allow_routes = routes_upto(&h, 2);
    let mut allow_lists: Vec<Vec<Vec<SwapRoute>>> = vec![vec![]];
    for i in 0..allow_routes.len() {
        allow_lists.push(vec![allow_routes[i].clone()]);
        // pairs: complete in the quick alphabet; in the thorough (larger) alphabet pairs with the first 40 routes
        let lim = if thorough { 40.min(allow_routes.len()) } else { allow_routes.len() };
        for j in (i + 1)..allow_routes.len() {
            if i < lim {
                allow_lists.push(vec![allow_routes[i].clone(), allow_routes[j].clone()]);
            }
        }
    }
    let cands = routes_upto(&h, 3);
    let trader = p20("trader");
    let senders = [trader.clone(), p20("adm"), p20("x")];
    let coins: Vec<(String, u128)> = vec![("a".into(), 1), ("b".into(), 1), ("c".into(), 1), ("a".into(), 0), ("a".into(), 1_000_000_000_000_000_000_000_000_000)];
    let limits = [0u128, 1, u128::MAX];
    let res: Vec<(u64, u64, Vec<(Violation, Value)>)> = allow_lists
        .par_iter()
        .map(|allow| {
            let Some(kv) = crate::own::try_treasury_kv(&p20("adm"), &trader, allow.clone()) else { return (0, 0, vec![]) };
            let mut n = 0u64;
            let mut acc = 0u64;
            let mut vs = vec![];
            for route in &cands {
                for exact_in in [true, false] {
                    for coin in &coins {
                        for (si, s) in senders.iter().enumerate() {
                            // limits only vary for the trader (they cannot influence authorisation)
                            let lims: &[u128] = if si == 0 { &limits } else { &limits[..1] };
                            for l in lims {
                                let (ok, v) = swap_case(&kv, allow, &trader, s, exact_in, route, coin, *l);
                                n += 1;
                                acc += ok as u64;
                                if let Some(v) = v {
                                    if vs.len() < 2 {
                                        vs.push(v);
                                    }
                                }
                            }
                        }
                    }
                }
            }
            (n, acc, vs)
        })
        .collect();
    let mut n = 0;
    let mut acc = 0;
    let mut viols: V = vec![];
    for (a, b, v) in res {
        n += a;
        acc += b;
        viols.extend(v);
    }
    r.grid(
        &format!("c13-swaps-{}allowlists-x-{}routes", allow_lists.len(), cands.len()),
        n,
        2,
        acc,
        n - acc,
        vec![json!({"allow_list": [[hop(1, "a", "b")]], "route": [hop(1, "a", "b")], "exact_in": true, "coin": ["a", "1"], "limit": "0", "sender": "trader", "outcome": "accepted"})],
        viols,
    );
    r.require(acc > 100, "C13 swap grid must contain accepted swaps");
}

/// second swap grid with differently shaped inputs: pool ids beyond 32 bits, denoms that differ only by
/// case or contain slashes, allow-lists of up to three routes, candidates of up to four hops
fn shape_grid(r: &mut Runner) {
    let h = vec![
        hop(1, "ibc/AB12CD", "uosmo"),
        hop(1, "ibc/ab12cd", "uosmo"),
        hop((1u64 << 32) + 1, "uosmo", "factory/osmo1xyz/Sub"),
        hop(u64::MAX, "factory/osmo1xyz/sub", "ibc/AB12CD"),
    ];
    let rs = routes_upto(&h, 2);
    let mut allow_lists: Vec<Vec<Vec<SwapRoute>>> = vec![vec![]];
    for i in 0..rs.len() {
        allow_lists.push(vec![rs[i].clone()]);
        for j in (i + 1)..rs.len() {
            allow_lists.push(vec![rs[i].clone(), rs[j].clone()]);
            for k in (j + 1)..rs.len() {
                allow_lists.push(vec![rs[i].clone(), rs[j].clone(), rs[k].clone()]);
            }
        }
    }
    let cands = routes_upto(&h, 4);
    let trader = p20("trader");
    let coins: Vec<(String, u128)> = ["ibc/AB12CD", "ibc/ab12cd", "uosmo", "factory/osmo1xyz/Sub", "factory/osmo1xyz/sub"].iter().map(|d| (d.to_string(), 3u128)).collect();
    let res: Vec<(u64, u64, Vec<(Violation, Value)>)> = allow_lists
        .par_iter()
        .map(|allow| {
            let Some(kv) = crate::own::try_treasury_kv(&p20("adm"), &trader, allow.clone()) else { return (0, 0, vec![]) };
            let mut n = 0u64;
            let mut acc = 0u64;
            let mut vs = vec![];
            for route in &cands {
                for exact_in in [true, false] {
                    for coin in &coins {
                        let (ok, v) = swap_case(&kv, allow, &trader, &trader, exact_in, route, coin, 7);
                        n += 1;
                        acc += ok as u64;
                        if let Some(v) = v {
                            if vs.len() < 2 {
                                vs.push(v);
                            }
                        }
                    }
                }
            }
            (n, acc, vs)
        })
        .collect();
    let mut n = 0;
    let mut acc = 0;
    let mut viols: V = vec![];
    for (a, b, v) in res {
        n += a;
        acc += b;
        viols.extend(v);
    }
    r.grid(&format!("c13-shape-grid-{}allowlists(<=3 routes)-x-{}routes(<=4 hops)", allow_lists.len(), cands.len()), n, 2, acc, n - acc, vec![json!({"allow_list": [[h[0]]], "route": [h[1]], "note": "denoms differ only by case"})], viols);
    r.require(acc > 100, "C13 shape grid must contain accepted swaps");
}

/// Long routes. Allow-listed routes of 3, 4 and 5 hops (alone, and next to a shorter route sharing their
/// endpoints); candidates are the route itself and everything one or two edits away from it: another pool
/// id, another input or output denom in any hop (a denom of the route or a foreign one), a dropped, doubled
/// or swapped hop, the reversed route. Only the identical route may pass.
fn long_route_grid(r: &mut Runner) {
    let d = ["ibc/TIA", "uusdc", "uosmo", "factory/osmo1xyz/milk", "uatom", "uion"];
    let base: Vec<SwapRoute> = (0..5).map(|i| hop(10 + i as u64 * ((1u64 << 31) + 3), d[i], d[i + 1])).collect();
    let trader = p20("trader");
    let mut n = 0u64;
    let mut acc = 0u64;
    let mut viols: V = vec![];
    for len in [3usize, 4, 5] {
        let route: Vec<SwapRoute> = base[..len].to_vec();
        let short = vec![hop(99, &route[0].token_in_denom, &route[len - 1].token_out_denom)];
        for allow in [vec![route.clone()], vec![short.clone(), route.clone()], vec![route.clone(), base[..len - 1].to_vec()]] {
            let Some(kv) = crate::own::try_treasury_kv(&p20("adm"), &trader, allow.clone()) else { continue };
            // single edits
            let mut edits: Vec<Vec<SwapRoute>> = vec![route.clone()];
            let single = |rt: &Vec<SwapRoute>| -> Vec<Vec<SwapRoute>> {
                let mut out = vec![];
                for i in 0..rt.len() {
                    for p2 in [rt[i].pool_id + 1, rt[i].pool_id ^ (1 << 40), 0] {
                        let mut x = rt.clone();
                        x[i].pool_id = p2;
                        out.push(x);
                    }
                    for alt in ["uscam", d[0], d[2], d[5], "IBC/TIA", ""] {
                        let mut x = rt.clone();
                        x[i].token_in_denom = alt.to_string();
                        out.push(x);
                        let mut x = rt.clone();
                        x[i].token_out_denom = alt.to_string();
                        out.push(x);
                    }
                    let mut x = rt.clone();
                    x.remove(i);
                    out.push(x);
                    let mut x = rt.clone();
                    x.insert(i, rt[i].clone());
                    out.push(x);
                    if i + 1 < rt.len() {
                        let mut x = rt.clone();
                        x.swap(i, i + 1);
                        out.push(x);
                    }
                }
                let mut x = rt.clone();
                x.reverse();
                out.push(x);
                // routes that read the same once rendered as text: a piece of one denom moved across a
                // separator into the neighbouring field, two hops fused into one
                for i in 0..rt.len() {
                    for sep in ['/', ',', ':', '|', ';', ' ', '-', '_'] {
                        let (a, b) = (rt[i].token_in_denom.clone(), rt[i].token_out_denom.clone());
                        for (pos, _) in a.match_indices(sep) {
                            let mut x = rt.clone();
                            x[i].token_in_denom = a[..pos].to_string();
                            x[i].token_out_denom = format!("{}{sep}{b}", &a[pos + 1..]);
                            out.push(x);
                        }
                        for (pos, _) in b.match_indices(sep) {
                            let mut x = rt.clone();
                            x[i].token_in_denom = format!("{a}{sep}{}", &b[..pos]);
                            x[i].token_out_denom = b[pos + 1..].to_string();
                            out.push(x);
                        }
                        if i + 1 < rt.len() {
                            for inner in ['/', ',', ':', '|'] {
                                let mut x = rt.clone();
                                let nxt = x.remove(i + 1);
                                x[i].token_out_denom = format!("{}{sep}{}{inner}{}{inner}{}", rt[i].token_out_denom, nxt.pool_id, nxt.token_in_denom, nxt.token_out_denom);
                                out.push(x);
                            }
                        }
                    }
                }
                out
            };
            let once = single(&route);
            edits.extend(once.clone());
            for e in &once {
                edits.extend(single(e));
            }
            edits.sort_by(|a, b| format!("{a:?}").cmp(&format!("{b:?}")));
            edits.dedup();
            for cand in &edits {
                for exact_in in [true, false] {
                    let coin = if exact_in { (route[0].token_in_denom.clone(), 5u128) } else { (route[len - 1].token_out_denom.clone(), 5u128) };
                    let (ok, v) = swap_case(&kv, &allow, &trader, &trader, exact_in, cand, &coin, 9);
                    n += 1;
                    acc += ok as u64;
                    if let Some(v) = v {
                        if viols.len() < 6 {
                            viols.push(v);
                        }
                    }
                }
            }
        }
    }
    r.grid("c13-long-routes: allow-listed routes of 3/4/5 hops x every candidate one or two edits away", n, 2, acc, n - acc, vec![json!({"allow_list": [base[..3]], "route_edit": "middle hop output denom -> uscam"})], viols);
    r.require(acc >= 18 && n > 10_000, "C13 long-route grid must accept the identical routes");
}

fn spend_grid(r: &mut Runner) {
    let kv = treasury_kv(&p20("adm"), &p20("trader"), vec![]);
    let osmo = p20("recv");
    let cel = bech::addr("celestia", "recv", 20);
    let mut bad = osmo.clone();
    let last = bad.pop().unwrap();
    bad.push(if last == 'q' { 'p' } else { 'q' });
    let receivers = vec![osmo.clone(), osmo.to_uppercase(), cel.clone(), bech::addr("cosmos", "recv", 20), bad, String::new(), p32("recv32"), bech::addr("celestia", "recv", 32), "osmo1".to_string(),
        // prefixes that merely begin with, or are a beginning of, the expected one (validator-operator
        // addresses, another chain sharing the stem): checksum-valid, wrong chain
        bech::addr("osmovaloper", "recv", 20), bech::addr("osmosis", "recv", 20), bech::addr("osm", "recv", 20),
        bech::addr("celestiavaloper", "recv", 20), bech::addr("celestiavalcons", "recv", 20), bech::addr("celest", "recv", 20),
        bech::addr("osmovaloper", "recv", 20).to_uppercase(), bech::addr("celestiavaloper", "recv", 20).to_uppercase()];
    let coins = [("a", 1u128), ("ibc/ABC", 1_000_000_000_000_000_000_000_000_000), ("b", 0)];
    let mut n = 0;
    let mut acc = 0;
    let mut viols: V = vec![];
    let mut samples = vec![];
    for sender in [p20("adm"), p20("trader"), p20("x")] {
        for recv in &receivers {
            for ch in [None, Some("channel-0".to_string()), Some("channel-77".to_string())] {
                for (d, a) in coins {
                    let mut kv2 = kv.clone();
                    let msg = ExecuteMsg::SpendFunds { amount: Coin { denom: d.into(), amount: Uint128::new(a) }, receiver: recv.clone(), channel_id: ch.clone() };
                    let res = texec(&mut kv2, &sender, msg);
                    n += 1;
                    let want_hrp = if ch.is_none() { "osmo" } else { "celestia" };
                    let valid = bech::decode(recv).map(|x| x.hrp == want_hrp).unwrap_or(false);
                    let should = sender == p20("adm") && valid;
                    let case = json!({"sender": sender, "receiver": recv, "channel": ch, "coin": [d, a.to_string()]});
                    match res {
                        Err(e) => {
                            if e == "PANIC" {
                                viols.push((viol("C13", "spend.panic", "SpendFunds panicked".into()), case));
                            } else if should {
                                viols.push((viol("C13", "spend.refused_wrongly", format!("admin spend to a valid {want_hrp} address refused: {e}")), case));
                            }
                        }
                        Ok(resp) => {
                            acc += 1;
                            if !should {
                                viols.push((viol("C13", "spend.accepted_wrongly", format!("SpendFunds accepted: admin={} receiver valid for {want_hrp}={valid}", sender == p20("adm"))), case));
                                continue;
                            }
                            let good = resp.messages.len() == 1
                                && match (&resp.messages[0].msg, &ch) {
                                    (CosmosMsg::Bank(BankMsg::Send { to_address, amount }), None) => to_address == recv && amount.len() == 1 && amount[0].denom == d && amount[0].amount.u128() == a,
                                    (CosmosMsg::Stargate { type_url, value }, Some(c)) => {
                                        type_url == "/ibc.applications.transfer.v1.MsgTransfer"
                                            && wire::parse(value.as_slice())
                                                .map(|f| {
                                                    wire::only_tags(&f, &[1, 2, 3, 4, 5, 6, 7, 8])
                                                        && wire::get_str(&f, 1).as_deref() == Some("transfer")
                                                        && wire::get_str(&f, 2).as_deref() == Some(c.as_str())
                                                        && wire::get_msgs(&f, 3).map(|t| t.len() == 1 && wire::coin(&t[0]) == Some(wire::PCoin { denom: d.into(), amount: a.to_string() })).unwrap_or(false)
                                                        && wire::get_str(&f, 4).as_deref() == Some(tre_addr().as_str())
                                                        && wire::get_str(&f, 5).as_deref() == Some(recv.as_str())
                                                        && wire::get_u64(&f, 7).map(|t| t > T0 * 1_000_000_000).unwrap_or(false)
                                                })
                                                .unwrap_or(false)
                                    }
                                    _ => false,
                                };
                            if !good {
                                viols.push((viol("C13", "spend.message.unfaithful", format!("emitted {:?}", resp.messages)), case.clone()));
                            }
                            if samples.len() < 2 {
                                samples.push(case);
                            }
                        }
                    }
                }
            }
        }
    }
    r.grid("c13-spend-funds", n, 2, acc, n - acc, samples, viols);
    r.require(acc >= 6, "C13 spend grid must contain accepted spends");
}

fn update_config_grid(r: &mut Runner) {
    let trader = p20("trader");
    let r1 = vec![hop(1, "a", "b")];
    let r2 = vec![hop(2, "b", "a"), hop(1, "a", "b")];
    let kv = treasury_kv(&p20("adm"), &trader, vec![r1.clone()]);
    let mut n = 0;
    let mut acc = 0;
    let mut viols: V = vec![];
    for sender in [p20("adm"), trader.clone(), p20("x")] {
        for new_trader in [None, Some(p20("trader2")), Some("garbage".to_string()), Some(bech::addr("celestia", "t", 20))] {
            for new_routes in [None, Some(vec![r2.clone()]), Some(vec![])] {
                let mut kv2 = kv.clone();
                let res = texec(&mut kv2, &sender, ExecuteMsg::UpdateConfig { trader: new_trader.clone(), allowed_swap_routes: new_routes.clone() });
                n += 1;
                let trader_valid = new_trader.as_ref().map(|t| bech::decode(t).map(|d| d.hrp == "osmo" && !d.upper).unwrap_or(false)).unwrap_or(true);
                let should = sender == p20("adm") && trader_valid;
                let case = json!({"sender": sender, "trader": new_trader, "routes": new_routes});
                match res {
                    Err(e) => {
                        if should || e == "PANIC" {
                            viols.push((viol("C13", "update_config.refused_wrongly", format!("admin update refused: {e}")), case));
                        } else if kv2 != kv {
                            viols.push((viol("C13", "update_config.refusal_changed_state", "refused update changed storage".into()), case));
                        }
                    }
                    Ok(_) => {
                        acc += 1;
                        if !should {
                            viols.push((viol("C13", "update_config.accepted_wrongly", format!("UpdateConfig by {sender} accepted")), case));
                            continue;
                        }
                        // the new configuration governs the swaps, the old one no longer does
                        let t_now = new_trader.clone().unwrap_or(trader.clone());
                        let allow_now = new_routes.clone().unwrap_or(vec![r1.clone()]);
                        for route in [r1.clone(), r2.clone(), vec![]] {
                            for s in [trader.clone(), p20("trader2"), p20("adm")] {
                                let coin = (route.first().map(|h| h.token_in_denom.clone()).unwrap_or("a".into()), 5u128);
                                let (_, v) = swap_case(&kv2, &allow_now, &t_now, &s, true, &route, &coin, 1);
                                n += 1;
                                if let Some(v) = v {
                                    viols.push(v);
                                }
                            }
                        }
                    }
                }
            }
        }
    }
    r.grid("c13-update-config-then-swaps", n, 2, acc, n - acc, vec![json!({"sender": "admin", "trader": "trader2", "routes": [r2]})], viols);
}

pub fn run(thorough: bool) -> i32 {
    let mut r = Runner::new("C13", if thorough { "thorough" } else { "quick" });
    r.assumptions = vec![
        "treasury entry points are called directly; emitted messages are decoded with the hand-written protobuf reader (field numbers of osmosis.poolmanager.v1beta1.MsgSwapExactAmountIn/Out and ibc MsgTransfer written from their .proto definitions)".into(),
        "a protocol-chain / native-chain address is any checksum-valid bech32 string with prefix osmo / celestia (upper-case spelling included, as the Cosmos SDK accepts it)".into(),
    ];
    swap_grid(&mut r, thorough);
    shape_grid(&mut r);
    long_route_grid(&mut r);
    spend_grid(&mut r);
    update_config_grid(&mut r);
    r.finish()
}

/// C16 part for the treasury: every entry point with hostile inputs must return a result or a typed error
pub fn panic_battery(r: &mut Runner) {
    use cosmwasm_std::Deps;
    let trader = p20("trader");
    let h = hops(&["a", "b"], true);
    let allow_sets: Vec<Vec<Vec<SwapRoute>>> = vec![vec![], vec![vec![]], vec![vec![h[0].clone()]], vec![vec![h[0].clone(), h[1].clone()], vec![]], vec![vec![h[2].clone()], vec![h[2].clone()]]];
    let cands = routes_upto(&h[..4], 2);
    let coins: Vec<(String, u128)> = vec![("a".into(), 0), ("a".into(), 1), ("".into(), 5), ("b".into(), u128::MAX), ("é".into(), 1)];
    let mut n = 0u64;
    let mut viols: V = vec![];
    let mut extra: V = vec![];
    let mut panic = |n: &mut u64, what: String, r: Result<Response, String>| {
        *n += 1;
        if r.as_ref().err().map(|e| e == "PANIC").unwrap_or(false) {
            viols.push((viol("C16", "panic.treasury", format!("treasury {what} panicked")), json!({"call": what})));
        }
    };
    for allow in &allow_sets {
        let Some(kv) = crate::own::try_treasury_kv(&p20("adm"), &trader, allow.clone()) else { continue };
        for route in &cands {
            for c in &coins {
                for sender in [&trader, &p20("x")] {
                    for lim in [0u128, u128::MAX] {
                        let coin = Coin { denom: c.0.clone(), amount: Uint128::new(c.1) };
                        let mut k1 = kv.clone();
                        panic(&mut n, format!("SwapExactAmountIn {:?} {:?}", route, c), texec(&mut k1, sender, ExecuteMsg::SwapExactAmountIn { routes: route.clone(), token_in: coin.clone(), token_out_min_amount: lim }));
                        let mut k2 = kv.clone();
                        panic(&mut n, format!("SwapExactAmountOut {:?} {:?}", route, c), texec(&mut k2, sender, ExecuteMsg::SwapExactAmountOut { routes: route.clone(), token_out: coin, token_in_max_amount: lim }));
                    }
                }
            }
        }
        for sender in [p20("adm"), trader.clone(), p20("x"), tre_addr()] {
            for recv in ["", "garbage", "osmo1", &p20("r"), &bech::addr("celestia", "r", 20), &p32("r")] {
                for ch in [None, Some(String::new()), Some("channel-0".to_string())] {
                    let mut k = kv.clone();
                    panic(&mut n, format!("SpendFunds to {recv:?} via {ch:?}"), texec(&mut k, &sender, ExecuteMsg::SpendFunds { amount: Coin { denom: "a".into(), amount: Uint128::new(u128::MAX) }, receiver: recv.to_string(), channel_id: ch }));
                }
            }
            for t in [None, Some(String::new()), Some("garbage".to_string()), Some(p20("t2"))] {
                let mut k = kv.clone();
                panic(&mut n, format!("UpdateConfig trader {t:?}"), texec(&mut k, &sender, ExecuteMsg::UpdateConfig { trader: t, allowed_swap_routes: Some(vec![vec![], vec![h[0].clone()]]) }));
            }
            for o in ["", "garbage", &p20("n")] {
                let mut k = kv.clone();
                panic(&mut n, format!("TransferOwnership {o:?}"), texec(&mut k, &sender, ExecuteMsg::TransferOwnership { new_owner: o.to_string() }));
            }
            let mut k = kv.clone();
            panic(&mut n, "AcceptOwnership".into(), texec(&mut k, &sender, ExecuteMsg::AcceptOwnership {}));
            let mut k = kv.clone();
            panic(&mut n, "RevokeOwnershipTransfer".into(), texec(&mut k, &sender, ExecuteMsg::RevokeOwnershipTransfer {}));
        }
        // query and migrate, also on an empty store
        for store in [kv.clone(), Kv::default()] {
            let api = SimApi { prefix: PROTO_PREFIX };
            let q = NoQuerier;
            let deps = Deps { storage: &store, api: &api, querier: QuerierWrapper::new(&q) };
            n += 1;
            if guarded(|| treasury::contract::query(deps, env(), treasury::msg::QueryMsg::Config {})).is_err() {
                extra.push((viol("C16", "panic.treasury.query", "treasury Config query panicked".into()), json!({"store_empty": store.m.is_empty()})));
            }
            let mut s2 = store.clone();
            let deps = DepsMut { storage: &mut s2, api: &api, querier: QuerierWrapper::new(&q) };
            n += 1;
            if guarded(|| treasury::contract::migrate(deps, env(), treasury::msg::MigrateMsg {})).is_err() {
                extra.push((viol("C16", "panic.treasury.migrate", "treasury migrate panicked".into()), json!({"store_empty": store.m.is_empty()})));
            }
        }
    }
    // instantiate with hostile arguments
    for admin in [None, Some(String::new()), Some("garbage".to_string()), Some(p20("a"))] {
        for tr in [None, Some("garbage".to_string()), Some(p32("t"))] {
            let mut kv = Kv::default();
            let api = SimApi { prefix: PROTO_PREFIX };
            let q = NoQuerier;
            let info = MessageInfo { sender: Addr::unchecked(p20("adm")), funds: vec![] };
            let deps = DepsMut { storage: &mut kv, api: &api, querier: QuerierWrapper::new(&q) };
            let msg = treasury::msg::InstantiateMsg { admin: admin.clone(), trader: tr.clone(), allowed_swap_routes: vec![vec![], vec![h[0].clone()]] };
            n += 1;
            if guarded(|| treasury::contract::instantiate(deps, env(), info, msg)).is_err() {
                extra.push((viol("C16", "panic.treasury.instantiate", format!("treasury instantiate({admin:?},{tr:?}) panicked")), json!({"admin": admin, "trader": tr})));
            }
        }
    }
    viols.extend(extra);
    r.grid("c16-treasury-hostile-battery", n, 2, n, 0, vec![json!({"call": "SwapExactAmountOut with empty route", "outcome": "typed error"})], viols);
}
