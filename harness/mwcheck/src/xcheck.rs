//! Cross-check of the primary explorer with an independently written search engine
//! (stateright 0.31 BFS). The same scenario is wrapped as a `stateright::Model` whose state key
//! includes the depth; the adapter records the fingerprint of every distinct world it reaches within
//! the depth bound. Count, xor and sum of those fingerprints must equal the primary engine's.

use mwsim::explore::{fp, Scenario};
use stateright::{Checker, Model, Property};
use std::collections::HashSet;
use std::hash::{Hash, Hasher};
use std::sync::atomic::{AtomicBool, AtomicU64, Ordering};
use std::sync::{Arc, Mutex};

pub struct SrModel<Sc: Scenario> {
    pub sc: Arc<Sc>,
    pub max_depth: usize,
    pub seen: Arc<Mutex<HashSet<u128>>>,
    pub violated: Arc<AtomicBool>,
    pub transitions: Arc<AtomicU64>,
}

pub struct SrState<S> {
    pub s: S,
    pub depth: usize,
}
impl<S: Clone> Clone for SrState<S> {
    fn clone(&self) -> Self {
        SrState { s: self.s.clone(), depth: self.depth }
    }
}
impl<S: Hash> Hash for SrState<S> {
    fn hash<H: Hasher>(&self, h: &mut H) {
        self.s.hash(h);
        self.depth.hash(h);
    }
}
impl<S: Hash> PartialEq for SrState<S> {
    fn eq(&self, o: &Self) -> bool {
        self.depth == o.depth && fp(&self.s) == fp(&o.s)
    }
}

impl<Sc: Scenario + Send + Sync + 'static> Model for SrModel<Sc>
where
    Sc::S: 'static,
    Sc::A: PartialEq,
{
    type State = SrState<Sc::S>;
    type Action = Sc::A;
    fn init_states(&self) -> Vec<Self::State> {
        let mut out = vec![];
        let mut seen = self.seen.lock().unwrap();
        for (_, s) in self.sc.seeds() {
            if seen.insert(fp(&s)) {
                out.push(SrState { s, depth: 0 });
            }
        }
        out
    }
    fn actions(&self, st: &Self::State, actions: &mut Vec<Self::Action>) {
        if st.depth < self.max_depth {
            actions.extend(self.sc.actions(&st.s));
        }
    }
    fn next_state(&self, st: &Self::State, a: Self::Action) -> Option<Self::State> {
        self.transitions.fetch_add(1, Ordering::Relaxed);
        let step = self.sc.step(&st.s, &a);
        if !step.violations.is_empty() {
            self.violated.store(true, Ordering::Relaxed);
            return None;
        }
        let n = step.next?;
        self.seen.lock().unwrap().insert(fp(&n));
        Some(SrState { s: n, depth: st.depth + 1 })
    }
    fn properties(&self) -> Vec<Property<Self>> {
        vec![Property::always("no step monitor fired", |m: &SrModel<Sc>, _s| !m.violated.load(Ordering::Relaxed))]
    }
}

pub struct XResult {
    pub worlds: u64,
    pub xor: u128,
    pub sum: u128,
    pub sr_states: usize,
    pub violated: bool,
}

pub fn run_stateright<Sc: Scenario + Send + Sync + 'static>(sc: Arc<Sc>, max_depth: usize) -> XResult
where
    Sc::S: 'static,
    Sc::A: PartialEq,
{
    let seen = Arc::new(Mutex::new(HashSet::new()));
    let violated = Arc::new(AtomicBool::new(false));
    let m = SrModel { sc, max_depth, seen: seen.clone(), violated: violated.clone(), transitions: Arc::new(AtomicU64::new(0)) };
    let checker = m.checker().threads(16).spawn_bfs().join();
    let sr_states = checker.unique_state_count();
    let seen = seen.lock().unwrap();
    let mut xor = 0u128;
    let mut sum = 0u128;
    for f in seen.iter() {
        xor ^= f;
        sum = sum.wrapping_add(*f);
    }
    XResult { worlds: seen.len() as u64, xor, sum, sr_states, violated: violated.load(Ordering::Relaxed) }
}
