//! Independent wide arithmetic (no cosmwasm / bnum): 128x128 -> 256 multiply, 256/128 division,
//! decimal-18 floor ratios. Used as oracle for C04, C05, C11, C15.

#[derive(Clone, Copy, Debug, PartialEq, Eq, PartialOrd, Ord)]
pub struct U256 {
    pub hi: u128,
    pub lo: u128,
}

pub fn mul(a: u128, b: u128) -> U256 {
    let (a1, a0) = (a >> 64, a & 0xffff_ffff_ffff_ffff);
    let (b1, b0) = (b >> 64, b & 0xffff_ffff_ffff_ffff);
    let p00 = a0 * b0;
    let p01 = a0 * b1;
    let p10 = a1 * b0;
    let p11 = a1 * b1;
    // lo = p00 + ((p01 + p10) << 64)
    let mid = (p00 >> 64) + (p01 & 0xffff_ffff_ffff_ffff) + (p10 & 0xffff_ffff_ffff_ffff);
    let lo = (p00 & 0xffff_ffff_ffff_ffff) | (mid << 64);
    let hi = p11 + (p01 >> 64) + (p10 >> 64) + (mid >> 64);
    U256 { hi, lo }
}

impl U256 {
    pub fn from(x: u128) -> Self {
        U256 { hi: 0, lo: x }
    }
    pub fn add(self, o: U256) -> Option<U256> {
        let (lo, c) = self.lo.overflowing_add(o.lo);
        let hi = self.hi.checked_add(o.hi)?.checked_add(c as u128)?;
        Some(U256 { hi, lo })
    }
    /// floor division by a u128 (bitwise long division); None when d == 0
    pub fn div(self, d: u128) -> Option<U256> {
        if d == 0 {
            return None;
        }
        let mut q = U256 { hi: 0, lo: 0 };
        let mut r: u128 = 0;
        let mut r_top = false; // 129th bit of the remainder
        for i in (0..256).rev() {
            let bit = if i >= 128 { (self.hi >> (i - 128)) & 1 } else { (self.lo >> i) & 1 };
            r_top = (r >> 127) & 1 == 1;
            r = (r << 1) | bit;
            if r_top || r >= d {
                r = r.wrapping_sub(d);
                if i >= 128 {
                    q.hi |= 1u128 << (i - 128);
                } else {
                    q.lo |= 1u128 << i;
                }
            }
        }
        let _ = r_top;
        Some(q)
    }
    pub fn to_u128(self) -> Option<u128> {
        if self.hi == 0 {
            Some(self.lo)
        } else {
            None
        }
    }
}

/// floor(a*b/c); None if c == 0 or the quotient does not fit 128 bits
pub fn mul_div(a: u128, b: u128, c: u128) -> Option<u128> {
    mul(a, b).div(c)?.to_u128()
}

/// 18-decimal fixed-point floor(n / d) as the atomics of a cosmwasm Decimal; None if d == 0 / overflow
pub fn dec18_ratio(n: u128, d: u128) -> Option<u128> {
    mul_div(n, 1_000_000_000_000_000_000u128, d)
}

/// render decimal atomics the way cosmwasm `Decimal::to_string` does ("1.5", "0", "0.333333333333333333")
pub fn dec18_to_string(atomics: u128) -> String {
    let one = 1_000_000_000_000_000_000u128;
    let whole = atomics / one;
    let frac = atomics % one;
    if frac == 0 {
        format!("{whole}")
    } else {
        let s = format!("{:018}", frac);
        format!("{whole}.{}", s.trim_end_matches('0'))
    }
}

pub fn self_test() -> Result<(), String> {
    let cases: [(u128, u128, u128); 6] = [
        (0, 5, 7),
        (10, 10, 3),
        (u128::MAX, u128::MAX, u128::MAX),
        (u128::MAX, 2, 2),
        (1 << 127, 6, 4),
        (123456789012345678901234567890u128, 987654321098765432109876543210u128 >> 1, 1_000_000_007),
    ];
    for (a, b, c) in cases {
        let p = mul(a, b);
        // verify p against schoolbook via 4 limbs recomposition identity: (p / c) * c + r == p  checked through div
        let q = p.div(c).ok_or("div")?;
        // q*c <= p < (q+1)*c
        if q.hi == 0 {
            let back = mul(q.lo, c);
            if back > p {
                return Err(format!("q*c > p for {a} {b} {c}"));
            }
            let next = back.add(U256::from(c));
            if let Some(n) = next {
                if n <= p {
                    return Err(format!("(q+1)*c <= p for {a} {b} {c}"));
                }
            }
        }
    }
    if mul(u128::MAX, u128::MAX) != (U256 { hi: u128::MAX - 1, lo: 1 }) {
        return Err("max*max".into());
    }
    if mul_div(u128::MAX, u128::MAX, u128::MAX) != Some(u128::MAX) {
        return Err("max*max/max".into());
    }
    if mul_div(7, 3, 2) != Some(10) || mul_div(1, 1, 0).is_some() || mul_div(u128::MAX, 2, 1).is_some() {
        return Err("small".into());
    }
    if dec18_to_string(dec18_ratio(1, 3).unwrap()) != "0.333333333333333333"
        || dec18_to_string(dec18_ratio(3, 2).unwrap()) != "1.5"
        || dec18_to_string(0) != "0"
        || dec18_to_string(dec18_ratio(2, 1).unwrap()) != "2"
    {
        return Err("dec18".into());
    }
    Ok(())
}
