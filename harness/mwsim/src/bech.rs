//! Hand-written bech32 (BIP-173) encoder / decoder. Independent of the `bech32` crate the
//! contracts link, so that it can serve as an oracle for address handling (C09, C14).

const CHARSET: &[u8; 32] = b"qpzry9x8gf2tvdw0s3jn54khce6mua7l";
const GEN: [u32; 5] = [0x3b6a57b2, 0x26508e6d, 0x1ea119fa, 0x3d4233dd, 0x2a1462b3];
pub const BECH32_CONST: u32 = 1;
pub const BECH32M_CONST: u32 = 0x2bc830a3;

fn polymod(values: &[u8]) -> u32 {
    let mut chk: u32 = 1;
    for v in values {
        let b = chk >> 25;
        chk = ((chk & 0x1ffffff) << 5) ^ (*v as u32);
        for (i, g) in GEN.iter().enumerate() {
            if (b >> i) & 1 == 1 {
                chk ^= g;
            }
        }
    }
    chk
}

fn hrp_expand(hrp: &str) -> Vec<u8> {
    let mut v: Vec<u8> = hrp.bytes().map(|b| b >> 5).collect();
    v.push(0);
    v.extend(hrp.bytes().map(|b| b & 31));
    v
}

/// regroup bits; `pad` as in BIP-173 reference
pub fn convert_bits(data: &[u8], from: u32, to: u32, pad: bool) -> Option<Vec<u8>> {
    let mut acc: u32 = 0;
    let mut bits: u32 = 0;
    let mut ret = Vec::new();
    let maxv: u32 = (1 << to) - 1;
    for value in data {
        let v = *value as u32;
        if (v >> from) != 0 {
            return None;
        }
        acc = (acc << from) | v;
        bits += from;
        while bits >= to {
            bits -= to;
            ret.push(((acc >> bits) & maxv) as u8);
        }
    }
    if pad {
        if bits > 0 {
            ret.push(((acc << (to - bits)) & maxv) as u8);
        }
    } else if bits >= from || ((acc << (to - bits)) & maxv) != 0 {
        return None;
    }
    Some(ret)
}

pub fn encode_const(hrp: &str, payload: &[u8], cst: u32) -> String {
    let data = convert_bits(payload, 8, 5, true).unwrap();
    let mut values = hrp_expand(hrp);
    values.extend(&data);
    values.extend([0u8; 6]);
    let pm = polymod(&values) ^ cst;
    let mut out = String::with_capacity(hrp.len() + 1 + data.len() + 6);
    out.push_str(hrp);
    out.push('1');
    for d in &data {
        out.push(CHARSET[*d as usize] as char);
    }
    for i in 0..6 {
        out.push(CHARSET[((pm >> (5 * (5 - i))) & 31) as usize] as char);
    }
    out
}

/// bech32 string over raw 5-bit groups (valid checksum whatever the groups are)
pub fn encode_groups(hrp: &str, groups: &[u8]) -> String {
    let mut values = hrp_expand(hrp);
    values.extend(groups.iter().map(|g| g & 31));
    values.extend([0u8; 6]);
    let pm = polymod(&values) ^ BECH32_CONST;
    let mut out = String::with_capacity(hrp.len() + 7 + groups.len());
    out.push_str(hrp);
    out.push('1');
    for d in groups {
        out.push(CHARSET[(*d & 31) as usize] as char);
    }
    for i in 0..6 {
        out.push(CHARSET[((pm >> (5 * (5 - i))) & 31) as usize] as char);
    }
    out
}

/// Checksum-valid strings under `hrp` that are not the encoding of a byte string, or of an unusual one:
/// no data at all, one group, an incomplete trailing group, non-zero padding bits on 20- and 32-byte
/// look-alikes, a 300-byte payload. The chain's own address validation refuses all of them; a contract
/// must answer them with an error (or accept them), never abort.
pub fn odd_strings(hrp: &str) -> Vec<String> {
    let mut v = vec![encode_groups(hrp, &[]), encode_groups(hrp, &[1]), encode_groups(hrp, &[31, 31, 31])];
    // 33 groups = 165 bits: 20 bytes + 5 stray bits
    v.push(encode_groups(hrp, &[21u8; 33]));
    // 32 groups encode 20 bytes exactly; 52 groups encode 32 bytes + 4 padding bits: make the padding non-zero
    let mut g = convert_bits(&[0xabu8; 32], 8, 5, true).unwrap();
    *g.last_mut().unwrap() |= 0x0f;
    v.push(encode_groups(hrp, &g));
    // 7 groups = 35 bits: 4 bytes + 3 non-zero padding bits
    v.push(encode_groups(hrp, &[3, 1, 4, 1, 5, 9, 7]));
    v.push(encode(hrp, &[0x5au8; 300]));
    v
}

/// bech32 (not bech32m) encoding of `payload` under `hrp`
pub fn encode(hrp: &str, payload: &[u8]) -> String {
    encode_const(hrp, payload, BECH32_CONST)
}

#[derive(Debug, Clone, PartialEq, Eq)]
pub struct Decoded {
    /// lower-cased human readable part
    pub hrp: String,
    pub payload: Vec<u8>,
    /// true if the string was all upper-case
    pub upper: bool,
    /// checksum constant that verified (1 = bech32, 0x2bc830a3 = bech32m)
    pub cst: u32,
}

/// Strict BIP-173 decoder: no mixed case, HRP chars in 33..=126, length <= 90 not enforced
/// (cosmos addresses with 32-byte payloads and long prefixes exceed 90; the `bech32` 0.9 crate
/// does not enforce it either).
pub fn decode(s: &str) -> Option<Decoded> {
    let has_lower = s.bytes().any(|b| b.is_ascii_lowercase());
    let has_upper = s.bytes().any(|b| b.is_ascii_uppercase());
    if has_lower && has_upper {
        return None;
    }
    if !s.is_ascii() {
        return None;
    }
    let lower = s.to_ascii_lowercase();
    let pos = lower.rfind('1')?;
    if pos == 0 || pos + 7 > lower.len() {
        return None;
    }
    let hrp = &lower[..pos];
    if hrp.bytes().any(|b| !(33..=126).contains(&b)) {
        return None;
    }
    let mut data = Vec::new();
    for c in lower[pos + 1..].bytes() {
        let idx = CHARSET.iter().position(|x| *x == c)?;
        data.push(idx as u8);
    }
    let mut values = hrp_expand(hrp);
    values.extend(&data);
    let pm = polymod(&values);
    if pm != BECH32_CONST && pm != BECH32M_CONST {
        return None;
    }
    let payload = convert_bits(&data[..data.len() - 6], 5, 8, false)?;
    Some(Decoded { hrp: hrp.to_string(), payload, upper: has_upper, cst: pm })
}

/// deterministic account address: payload bytes derived from a label
pub fn addr(hrp: &str, label: &str, len: usize) -> String {
    use sha2::{Digest, Sha256};
    let h = Sha256::digest(label.as_bytes());
    let mut payload = h.to_vec();
    while payload.len() < len {
        let h2 = Sha256::digest(&payload);
        payload.extend_from_slice(&h2);
    }
    payload.truncate(len);
    encode(hrp, &payload)
}

/// Osmosis ibc-hooks intermediate sender, written from the Go reference
/// (x/ibc-hooks/keeper: `address.Hash("ibc-wasm-hook-intermediary", []byte(channel + "/" + sender))`,
/// address.Hash(typ,key) = sha256(sha256(typ) || key)), bech32-encoded under the chain prefix.
pub fn hook_sender(channel: &str, original_sender: &str, prefix: &str) -> String {
    use sha2::{Digest, Sha256};
    let th = Sha256::digest(b"ibc-wasm-hook-intermediary");
    let mut h = Sha256::new();
    h.update(th);
    h.update(format!("{}/{}", channel, original_sender).as_bytes());
    let out = h.finalize();
    encode(prefix, &out)
}

pub fn self_test() -> Result<(), String> {
    for o in odd_strings("osmo") {
        // checksum-valid for the lenient reading (the `bech32` crate's decode), refused by the strict one
        let lower = o.to_ascii_lowercase();
        let pos = lower.rfind('1').ok_or("odd string without separator")?;
        let mut values = hrp_expand(&lower[..pos]);
        for c in lower[pos + 1..].bytes() {
            values.push(CHARSET.iter().position(|x| *x == c).ok_or("odd string charset")? as u8);
        }
        if polymod(&values) != BECH32_CONST {
            return Err(format!("odd string {o} has no valid checksum"));
        }
    }

    // BIP-173 valid vectors
    for v in [
        "A12UEL5L",
        "a12uel5l",
        "an83characterlonghumanreadablepartthatcontainsthenumber1andtheexcludedcharactersbio1tt5tgs",
        "abcdef1qpzry9x8gf2tvdw0s3jn54khce6mua7lmqqqxw",
        "split1checkupstagehandshakeupstreamerranterredcaperred2y9e3w",
        "?1ezyfcl",
    ] {
        // the 5-bit payloads of some vectors are not byte aligned; only require checksum validity
        let lower = v.to_ascii_lowercase();
        let pos = lower.rfind('1').unwrap();
        let mut values = hrp_expand(&lower[..pos]);
        for c in lower[pos + 1..].bytes() {
            values.push(CHARSET.iter().position(|x| *x == c).ok_or("charset")? as u8);
        }
        if polymod(&values) != 1 {
            return Err(format!("bip173 vector failed: {v}"));
        }
    }
    for v in ["pzry9x0s0muk", "1pzry9x0s0muk", "x1b4n0q5v", "li1dgmt3", "A1G7SGD8", "10a06t8", "1qzzfhee", "A12UEl5L"] {
        if decode(v).is_some() {
            return Err(format!("bip173 invalid vector accepted: {v}"));
        }
    }
    // known cosmos addresses (from the repository's own test data) round trip
    for a in ["osmo12z558dm3ew6avgjdj07mfslx80rp9sh8nt7q3w", "osmo13ftwm6z4dq6ugjvus2hf2vx3045ahfn3dq7dms"] {
        let d = decode(a).ok_or("decode known")?;
        if d.hrp != "osmo" || d.payload.len() != 20 || encode("osmo", &d.payload) != a {
            return Err(format!("round trip failed for {a}"));
        }
    }
    // ibc-hooks known answer, computed once with python hashlib + reference bech32:
    //   channel-0 / celestia1sfhy3emrgp26wnzuu64p06kpkxd9phel8ym0ge  under "osmo"
    let got = hook_sender("channel-0", "celestia1sfhy3emrgp26wnzuu64p06kpkxd9phel8ym0ge", "osmo");
    if got != HOOK_KAT {
        return Err(format!("hook KAT mismatch: {got}"));
    }
    Ok(())
}

pub const HOOK_KAT: &str = "osmo1yhzpn6huxunjwdjutzt9f2yf4dnx53apmcnujgn6edmlprhm3xysa2c4et";
