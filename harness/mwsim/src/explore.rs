//! Level-synchronous, deterministic, parallel breadth-first search over a scenario whose
//! transitions execute the real contract code.

use rayon::prelude::*;
use serde::{de::DeserializeOwned, Serialize};
use std::collections::{BTreeMap, HashMap};
use std::hash::{Hash, Hasher};
use std::time::Instant;

#[derive(Clone, Debug, PartialEq, Eq, Serialize, serde::Deserialize)]
pub struct Violation {
    pub property: String,
    /// call site + input shape (never amounts): identifies a finding in known_findings.json
    pub key: String,
    pub detail: String,
}

pub fn viol(property: &str, key: &str, detail: String) -> Violation {
    Violation { property: property.into(), key: key.into(), detail }
}

pub struct Step<S> {
    /// successor world if the action changed anything (a failed transaction changes nothing)
    pub next: Option<S>,
    pub violations: Vec<Violation>,
    /// counters / reachability goals hit by this transition ("Stake:ok", "goal:slashed_withdraw")
    pub tags: Vec<String>,
    /// number of model-vs-implementation comparisons made on this transition
    pub validated: u64,
    /// build-independent digest of what the transition did (events with chain-specific message
    /// encodings abstracted away); 0 if the scenario does not compute one
    pub digest: u64,
}

#[derive(Default)]
pub struct StateObs {
    pub violations: Vec<Violation>,
    pub tags: Vec<String>,
    pub probes: u64,
}

pub trait Scenario: Sync {
    type S: Clone + Hash + Send + Sync;
    type A: Clone + std::fmt::Debug + Send + Sync + Serialize + DeserializeOwned;
    fn name(&self) -> String;
    fn seeds(&self) -> Vec<(String, Self::S)>;
    fn actions(&self, s: &Self::S) -> Vec<Self::A>;
    fn step(&self, s: &Self::S, a: &Self::A) -> Step<Self::S>;
    fn on_state(&self, _s: &Self::S) -> StateObs {
        StateObs::default()
    }
}

pub fn fp<S: Hash>(s: &S) -> u128 {
    let mut h1 = std::collections::hash_map::DefaultHasher::new();
    0x51u8.hash(&mut h1);
    s.hash(&mut h1);
    let mut h2 = std::collections::hash_map::DefaultHasher::new();
    0xa7a7_u16.hash(&mut h2);
    s.hash(&mut h2);
    0x33u8.hash(&mut h2);
    ((h1.finish() as u128) << 64) | (h2.finish() as u128)
}

#[derive(Clone, Debug, Serialize)]
pub struct Found<A> {
    pub violation: Violation,
    pub seed: String,
    pub path: Vec<A>,
    pub known: bool,
}

pub struct Limits {
    pub max_depth: usize,
    pub max_states: usize,
    pub max_wall_s: f64,
}

/// resident set size of this process in bytes (Linux), 0 if unknown
pub fn rss_bytes() -> u64 {
    std::fs::read_to_string("/proc/self/statm")
        .ok()
        .and_then(|s| s.split_whitespace().nth(1).and_then(|x| x.parse::<u64>().ok()))
        .map(|pages| pages * 4096)
        .unwrap_or(0)
}

/// memory cap of the explorer (bytes); a search that reaches it stops and is reported as capped
pub fn rss_cap() -> u64 {
    std::env::var("VERIF_RSS_CAP_GB").ok().and_then(|s| s.parse::<u64>().ok()).unwrap_or(20) * 1024 * 1024 * 1024
}

pub struct Report<A> {
    pub states: u64,
    pub transitions: u64,
    pub max_depth: usize,
    pub tags: BTreeMap<String, u64>,
    pub found: Vec<Found<A>>,
    pub capped: Option<String>,
    pub levels: Vec<usize>,
    pub probes: u64,
    pub validated: u64,
    pub wall_s: f64,
    pub sample_paths: Vec<(String, Vec<A>)>,
    /// order-independent accumulators (xor, wrapping sum) over state fingerprints and transition digests
    pub state_acc: (u128, u128),
    pub trans_acc: (u128, u128),
}

fn acc(a: &mut (u128, u128), x: u128) {
    a.0 ^= x;
    a.1 = a.1.wrapping_add(x);
}

struct Node {
    parent: u128,
    act: u32, // index into arena, u32::MAX for seeds
    seed: u32,
}

pub fn explore<Sc: Scenario>(sc: &Sc, lim: &Limits, known_keys: &[String]) -> Report<Sc::A> {
    let t0 = Instant::now();
    let seeds = sc.seeds();
    let mut visited: HashMap<u128, Node> = HashMap::new();
    let mut arena: Vec<Sc::A> = Vec::new();
    let mut frontier: Vec<(u128, Sc::S)> = Vec::new();
    let mut rep = Report {
        states: 0,
        transitions: 0,
        max_depth: 0,
        tags: BTreeMap::new(),
        found: Vec::new(),
        capped: None,
        levels: Vec::new(),
        probes: 0,
        validated: 0,
        wall_s: 0.0,
        sample_paths: Vec::new(),
        state_acc: (0, 0),
        trans_acc: (0, 0),
    };
    let mut pending_viol: Vec<(Violation, u128, Option<Sc::A>)> = Vec::new();
    for (i, (_, s)) in seeds.iter().enumerate() {
        let f = fp(s);
        if !visited.contains_key(&f) {
            visited.insert(f, Node { parent: 0, act: u32::MAX, seed: i as u32 });
            acc(&mut rep.state_acc, f);
            frontier.push((f, s.clone()));
        }
    }
    // state monitors on seeds
    let obs: Vec<StateObs> = frontier.par_iter().map(|(_, s)| sc.on_state(s)).collect();
    for (o, (f, _)) in obs.into_iter().zip(frontier.iter()) {
        rep.probes += o.probes;
        for t in o.tags {
            *rep.tags.entry(t).or_insert(0) += 1;
        }
        for v in o.violations {
            pending_viol.push((v, *f, None));
        }
    }
    rep.states = frontier.len() as u64;
    rep.levels.push(frontier.len());
    let mut depth = 0usize;
    const CHUNK: usize = 2048;
    let mut last_level_count = 0usize;
    let mut last_sample: Option<u128> = None;
    'outer: while !frontier.is_empty() && depth < lim.max_depth && pending_viol.iter().all(|(v, _, _)| known_keys.contains(&v.key)) {
        let mut next: Vec<(u128, Sc::S)> = Vec::new();
        for chunk in frontier.chunks(CHUNK) {
            // expand in parallel
            let expanded: Vec<Vec<(Sc::A, Step<Sc::S>, Option<u128>)>> = chunk
                .par_iter()
                .map(|(_, s)| {
                    sc.actions(s)
                        .into_iter()
                        .map(|a| {
                            let st = sc.step(s, &a);
                            let f = st.next.as_ref().map(|n| fp(n));
                            (a, st, f)
                        })
                        .collect()
                })
                .collect();
            // merge sequentially (deterministic order)
            #[allow(unused_mut)]
            let mut fresh: Vec<(u128, Sc::S)> = Vec::new();
            for ((pf, _), succs) in chunk.iter().zip(expanded.into_iter()) {
                for (a, st, f) in succs {
                    rep.transitions += 1;
                    rep.validated += st.validated;
                    if st.digest != 0 {
                        let t = fp(&(*pf, st.digest, f.unwrap_or(0)));
                        acc(&mut rep.trans_acc, t);
                    }
                    for t in st.tags {
                        *rep.tags.entry(t).or_insert(0) += 1;
                    }
                    let mut prune = false;
                    for v in st.violations {
                        prune = true;
                        pending_viol.push((v, *pf, Some(a.clone())));
                    }
                    if prune {
                        continue;
                    }
                    if let (Some(n), Some(f)) = (st.next, f) {
                        if !visited.contains_key(&f) {
                            arena.push(a);
                            visited.insert(f, Node { parent: *pf, act: (arena.len() - 1) as u32, seed: 0 });
                            acc(&mut rep.state_acc, f);
                            fresh.push((f, n));
                        }
                    }
                }
            }
            let obs: Vec<StateObs> = fresh.par_iter().map(|(_, s)| sc.on_state(s)).collect();
            for (o, (f, _)) in obs.into_iter().zip(fresh.iter()) {
                rep.probes += o.probes;
                for t in o.tags {
                    *rep.tags.entry(t).or_insert(0) += 1;
                }
                for v in o.violations {
                    pending_viol.push((v, *f, None));
                }
            }
            rep.states += fresh.len() as u64;
            if depth + 1 < lim.max_depth {
                next.extend(fresh);
            } else {
                // states of the last level are judged (above) but never expanded: they need not be kept
                last_level_count += fresh.len();
                if let Some(x) = fresh.pop() {
                    last_sample = Some(x.0);
                }
            }
            if visited.len() > lim.max_states {
                rep.capped = Some(format!("state cap {} hit at depth {}", lim.max_states, depth + 1));
                break 'outer;
            }
            if rss_bytes() > rss_cap() {
                rep.capped = Some(format!("memory cap {} GB hit at depth {} ({} states)", rss_cap() >> 30, depth + 1, visited.len()));
                break 'outer;
            }
            if t0.elapsed().as_secs_f64() > lim.max_wall_s {
                rep.capped = Some(format!("wall cap {}s hit at depth {}", lim.max_wall_s, depth + 1));
                break 'outer;
            }
        }
        depth += 1;
        rep.max_depth = depth;
        rep.levels.push(next.len() + last_level_count);
        // keep a few sample paths
        if let Some(f) = next.last().map(|x| x.0).or(last_sample) {
            if rep.sample_paths.len() < 4 {
                let (seed, path) = rebuild::<Sc>(&visited, &arena, f, &seeds);
                rep.sample_paths.push((seed, path));
            }
        }
        frontier = next;
    }
    // resolve violations into replayable paths (first per key, in discovery order)
    let mut seen_keys: Vec<String> = Vec::new();
    for (v, f, a) in pending_viol {
        if seen_keys.contains(&v.key) {
            continue;
        }
        seen_keys.push(v.key.clone());
        let (seed, mut path) = rebuild::<Sc>(&visited, &arena, f, &seeds);
        if let Some(a) = a {
            path.push(a);
        }
        let known = known_keys.contains(&v.key);
        rep.found.push(Found { violation: v, seed, path, known });
    }
    rep.wall_s = t0.elapsed().as_secs_f64();
    rep
}

fn rebuild<Sc: Scenario>(
    visited: &HashMap<u128, Node>,
    arena: &[Sc::A],
    mut f: u128,
    seeds: &[(String, Sc::S)],
) -> (String, Vec<Sc::A>) {
    let mut path = Vec::new();
    loop {
        let n = &visited[&f];
        if n.act == u32::MAX {
            path.reverse();
            return (seeds[n.seed as usize].0.clone(), path);
        }
        path.push(arena[n.act as usize].clone());
        f = n.parent;
    }
}

/// Re-execute a path from a named seed without the explorer; returns all violations seen
/// (step and state monitors) and the fingerprint of the final state.
pub fn replay<Sc: Scenario>(sc: &Sc, seed: &str, path: &[Sc::A]) -> Result<(Vec<Violation>, u128), String> {
    let seeds = sc.seeds();
    let (_, mut s) = seeds.into_iter().find(|(n, _)| n == seed).ok_or_else(|| format!("unknown seed {seed}"))?;
    let mut vs = Vec::new();
    vs.extend(sc.on_state(&s).violations);
    for a in path {
        let st = sc.step(&s, a);
        vs.extend(st.violations);
        if let Some(n) = st.next {
            s = n;
            vs.extend(sc.on_state(&s).violations);
        }
    }
    Ok((vs, fp(&s)))
}
