//! Cloneable / hashable contract storage plus the Api and Querier handed to the contracts.

use cosmwasm_std::{
    Addr, Api, CanonicalAddr, Order, Querier, QuerierResult, Record, RecoverPubkeyError, StdError, StdResult,
    Storage, SystemError, SystemResult, VerificationError,
};
use std::collections::BTreeMap;
use std::ops::Bound;
use std::sync::Arc;

#[derive(Clone, Debug, Default, Hash, PartialEq, Eq)]
pub struct Kv {
    /// values are shared between the many clones of a world (most transitions touch few keys)
    pub m: BTreeMap<Vec<u8>, Arc<Vec<u8>>>,
}

thread_local! {
    /// storage reads (point reads and iterated records) of the current thread since the last reset: the
    /// simulator's stand-in for the read part of a gas meter
    static READS: std::cell::Cell<u64> = const { std::cell::Cell::new(0) };
}
pub fn reset_reads() {
    READS.with(|c| c.set(0));
}
pub fn reads() -> u64 {
    READS.with(|c| c.get())
}
fn count_read() {
    READS.with(|c| c.set(c.get() + 1));
}

impl Storage for Kv {
    fn get(&self, key: &[u8]) -> Option<Vec<u8>> {
        count_read();
        self.m.get(key).map(|v| v.as_ref().clone())
    }
    fn range<'a>(
        &'a self,
        start: Option<&[u8]>,
        end: Option<&[u8]>,
        order: Order,
    ) -> Box<dyn Iterator<Item = Record> + 'a> {
        let lo = match start {
            Some(s) => Bound::Included(s.to_vec()),
            None => Bound::Unbounded,
        };
        let hi = match end {
            Some(e) => Bound::Excluded(e.to_vec()),
            None => Bound::Unbounded,
        };
        if let (Some(s), Some(e)) = (start, end) {
            if s > e {
                return Box::new(std::iter::empty());
            }
        }
        let it = self.m.range((lo, hi)).map(|(k, v)| {
            count_read();
            (k.clone(), v.as_ref().clone())
        });
        match order {
            Order::Ascending => Box::new(it),
            Order::Descending => Box::new(it.rev()),
        }
    }
    fn set(&mut self, key: &[u8], value: &[u8]) {
        if value.is_empty() {
            panic!("TL;DR: Value must not be empty in Storage::set but in most cases you can use Storage::remove instead.");
        }
        self.m.insert(key.to_vec(), Arc::new(value.to_vec()));
    }
    fn remove(&mut self, key: &[u8]) {
        self.m.remove(key);
    }
}

/// Api validating bech32 under the chain prefix, as wasmd's does (lower-case, checksum valid,
/// prefix equal, 20 or 32 byte payload).
#[derive(Clone, Debug)]
pub struct SimApi {
    pub prefix: &'static str,
}

impl Api for SimApi {
    fn addr_validate(&self, human: &str) -> StdResult<Addr> {
        let d = crate::bech::decode(human).ok_or_else(|| StdError::generic_err("invalid bech32"))?;
        if d.upper || d.hrp != self.prefix || d.cst != crate::bech::BECH32_CONST {
            return Err(StdError::generic_err("invalid address"));
        }
        if d.payload.len() != 20 && d.payload.len() != 32 {
            return Err(StdError::generic_err("invalid address length"));
        }
        Ok(Addr::unchecked(human))
    }
    fn addr_canonicalize(&self, human: &str) -> StdResult<CanonicalAddr> {
        let d = crate::bech::decode(human).ok_or_else(|| StdError::generic_err("invalid bech32"))?;
        Ok(CanonicalAddr::from(d.payload))
    }
    fn addr_humanize(&self, canonical: &CanonicalAddr) -> StdResult<Addr> {
        Ok(Addr::unchecked(crate::bech::encode(self.prefix, canonical.as_slice())))
    }
    fn secp256k1_verify(&self, _: &[u8], _: &[u8], _: &[u8]) -> Result<bool, VerificationError> {
        Err(VerificationError::unknown_err(0))
    }
    fn secp256k1_recover_pubkey(&self, _: &[u8], _: &[u8], _: u8) -> Result<Vec<u8>, RecoverPubkeyError> {
        Err(RecoverPubkeyError::unknown_err(0))
    }
    fn ed25519_verify(&self, _: &[u8], _: &[u8], _: &[u8]) -> Result<bool, VerificationError> {
        Err(VerificationError::unknown_err(0))
    }
    fn ed25519_batch_verify(&self, _: &[&[u8]], _: &[&[u8]], _: &[&[u8]]) -> Result<bool, VerificationError> {
        Err(VerificationError::unknown_err(0))
    }
    fn debug(&self, _message: &str) {}
}

pub struct NoQuerier;
impl Querier for NoQuerier {
    fn raw_query(&self, _bin_request: &[u8]) -> QuerierResult {
        SystemResult::Err(SystemError::Unknown {})
    }
}

/// What a contract can ask the chain: bank balances (from the simulated bank, as they are at the moment of
/// the call) and wasmd's per-contract metadata (creator and migration admin: two accounts that hold no role
/// in the contract's own storage). Everything else is an unsupported request.
pub struct ChainQuerier<'a> {
    pub bank: &'a BTreeMap<(String, String), u128>,
    pub contract: String,
}

pub fn chain_creator() -> String {
    crate::bech::addr("osmo", "chain-creator", 20)
}
pub fn chain_migration_admin() -> String {
    crate::bech::addr("osmo", "chain-migration-admin", 20)
}

impl Querier for ChainQuerier<'_> {
    fn raw_query(&self, bin_request: &[u8]) -> QuerierResult {
        use cosmwasm_std::{BankQuery, ContractResult, Empty, QueryRequest, WasmQuery};
        let req: QueryRequest<Empty> = match cosmwasm_std::from_json(bin_request) {
            Ok(r) => r,
            Err(e) => return SystemResult::Err(SystemError::InvalidRequest { error: e.to_string(), request: bin_request.into() }),
        };
        let ok = |v: serde_json::Value| SystemResult::Ok(ContractResult::Ok(cosmwasm_std::Binary::from(serde_json::to_vec(&v).unwrap())));
        match req {
            QueryRequest::Bank(BankQuery::Balance { address, denom }) => {
                let a = self.bank.get(&(address, denom.clone())).copied().unwrap_or(0);
                ok(serde_json::json!({"amount": {"denom": denom, "amount": a.to_string()}}))
            }
            QueryRequest::Bank(BankQuery::AllBalances { address }) => {
                let coins: Vec<serde_json::Value> = self.bank.iter().filter(|((who, _), a)| *who == address && **a > 0).map(|((_, d), a)| serde_json::json!({"denom": d, "amount": a.to_string()})).collect();
                ok(serde_json::json!({"amount": coins}))
            }
            QueryRequest::Wasm(WasmQuery::ContractInfo { contract_addr }) => {
                if contract_addr == self.contract {
                    ok(serde_json::json!({"code_id": 7, "creator": chain_creator(), "admin": chain_migration_admin(), "pinned": false, "ibc_port": null}))
                } else {
                    SystemResult::Err(SystemError::NoSuchContract { addr: contract_addr })
                }
            }
            _ => SystemResult::Err(SystemError::UnsupportedRequest { kind: "not modelled by the simulated chain".into() }),
        }
    }
}
