pub mod arith;
pub mod bech;
pub mod explore;
pub mod kv;
pub mod monitors;
pub mod sim;
pub mod wire;
pub mod world;

pub fn self_tests() -> Result<(), String> {
    bech::self_test()?;
    wire::self_test()?;
    arith::self_test()?;
    Ok(())
}
