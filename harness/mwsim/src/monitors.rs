//! State and step monitors. Each returns violations tagged with the property they decide.
//! A monitor only looks at observables named in the property statement: queries of the contract,
//! token movements recorded by the simulator, and the reference model.

use crate::arith::{dec18_ratio, dec18_to_string, mul, mul_div};
use crate::bech;
use crate::explore::{viol, Violation};
use crate::sim::*;
use crate::world::*;
use staking::msg::ExecuteMsg;

pub fn has(props: &[&str], p: &str) -> bool {
    props.contains(&p)
}

fn flight_sum(w: &World, denom: &str) -> u128 {
    w.ibc.flight.values().filter(|p| p.denom == denom).map(|p| p.amount).sum()
}

/// refundable transfers as the contract reports them (IbcQueue entries that failed or timed out)
fn queue_refundable(s: &Sim) -> Vec<staking::state::ibc::IBCTransfer> {
    use staking::state::ibc::PacketLifecycleStatus as PS;
    s.w.ibc_queue().into_iter().filter(|p| matches!(p.status, PS::AckFailure | PS::TimedOut)).collect()
}

fn refundable_sum(s: &Sim, denom: &str) -> u128 {
    queue_refundable(s).iter().filter(|p| p.amount.denom == denom).map(|p| p.amount.amount.u128()).sum()
}

/// in flight / refundable and destined to `receiver`
fn flight_to(w: &World, denom: &str, receiver: &str) -> u128 {
    w.ibc.flight.values().filter(|p| p.denom == denom && p.receiver == receiver).map(|p| p.amount).sum()
}

fn refundable_to(s: &Sim, denom: &str, receiver: &str) -> u128 {
    queue_refundable(s).iter().filter(|p| p.amount.denom == denom && p.receiver == receiver).map(|p| p.amount.amount.u128()).sum()
}

/// Invariants evaluated on every distinct state.
pub fn state_monitors(props: &[&str], s: &Sim) -> Vec<Violation> {
    let mut v = Vec::new();
    let sd = staked_denom();
    let lst = s.w.lst_denom();
    let me = contract_addr();
    let st = s.w.state();

    if has(props, "C01") {
        let lhs = st.total_native_token.u128() as i128;
        let rhs = s.g.base_native as i128 + s.g.fwd as i128 - s.g.set_aside as i128 - s.g.swept as i128;
        if lhs != rhs {
            v.push(viol(
                "C01",
                "state.total_native.ledger",
                format!(
                    "State.total_native_token={} but base {} + forwarded {} - set aside {} - swept {} = {}",
                    lhs, s.g.base_native, s.g.fwd, s.g.set_aside, s.g.swept, rhs
                ),
            ));
        }
        // "forwarded toward the native-chain staker": only what is delivered to, in flight to, or
        // refundable for the staker counts
        let staker = n20(&s.w.k, "staker");
        let cons = s.g.acked_total + flight_to(&s.w, &sd, &staker) + refundable_to(s, &sd, &staker);
        if s.g.fwd_total != cons {
            v.push(viol(
                "C01",
                "state.forwarded.conservation",
                format!(
                    "forwarded toward staker {} != delivered to staker {} + in flight to staker {} + refundable for staker {}",
                    s.g.fwd_total,
                    s.g.acked_total,
                    flight_to(&s.w, &sd, &staker),
                    refundable_to(s, &sd, &staker)
                ),
            ));
        }
        if s.g.honest {
            let holds = s.w.nbal(&staker, &sd) + flight_to(&s.w, &sd, &staker) + refundable_to(s, &sd, &staker);
            let owed: u128 = s.m.batches.values().filter(|b| b.status == MStatus::Submitted).map(|b| b.expected.unwrap_or(0)).sum();
            if holds != st.total_native_token.u128() + owed {
                v.push(viol(
                    "C01",
                    "state.staker.backing",
                    format!(
                        "honest operator: staker holdings+in flight+refundable = {} but staked total {} + outstanding batches {}",
                        holds,
                        st.total_native_token.u128(),
                        owed
                    ),
                ));
            }
        }
    }

    if has(props, "C02") {
        let owed_batches: u128 = s
            .m
            .batches
            .values()
            .filter(|b| b.status == MStatus::Received)
            .map(|b| b.received.unwrap_or(0).saturating_sub(b.paid))
            .sum();
        let rhs = owed_batches + st.total_fees.u128() + refundable_sum(s, &sd);
        let bal = s.w.bal(&me, &sd);
        if bal != rhs {
            v.push(viol(
                "C02",
                "state.solvency",
                format!(
                    "contract holds {} staked asset but owes batches {} + fees {} + refundable {} = {}",
                    bal,
                    owed_batches,
                    st.total_fees.u128(),
                    refundable_sum(s, &sd),
                    rhs
                ),
            ));
        }
        for b in s.m.batches.values() {
            if let Some(r) = b.received {
                if b.paid > r {
                    v.push(viol("C02", "state.batch.overpaid", format!("batch {} paid {} > received {}", b.id, b.paid, r)));
                }
            }
        }
    }

    if has(props, "C03") {
        let supply = s.w.factory.get(&lst).map(|x| x.1).unwrap_or(0);
        if supply != st.total_liquid_stake_token.u128() {
            v.push(viol(
                "C03",
                "state.lst.supply",
                format!("LST supply {} != State.total_liquid_stake_token {}", supply, st.total_liquid_stake_token),
            ));
        }
        let pb = s.w.pending_batch();
        let held = s.w.bal(&me, &lst);
        let want = pb.batch_total_liquid_stake.u128() + refundable_sum(s, &lst);
        if held != want {
            v.push(viol(
                "C03",
                "state.lst.contract_balance",
                format!(
                    "contract holds {} LST but pending batch queues {} and refundable LST is {}",
                    held,
                    pb.batch_total_liquid_stake,
                    refundable_sum(s, &lst)
                ),
            ));
        }
    }

    if has(props, "C03") {
        // LST minted for a native-chain recipient stays destined to that recipient through every IBC
        // outcome and recovery: delivered to it, in flight to it, or refundable for it
        for (r, sent) in &s.g.lst_sent {
            let got = s.g.lst_acked.get(r).copied().unwrap_or(0) + flight_to(&s.w, &lst, r) + refundable_to(s, &lst, r);
            if got != *sent {
                v.push(viol(
                    "C03",
                    "state.lst.recipient_conservation",
                    format!("{sent} LST were minted for native recipient {r}; delivered {} + in flight {} + refundable {}", s.g.lst_acked.get(r).copied().unwrap_or(0), flight_to(&s.w, &lst, r), refundable_to(s, &lst, r)),
                ));
            }
        }
    }

    if has(props, "C05") || has(props, "C06") {
        let qb = s.w.batches();
        if has(props, "C05") {
            for b in &qb {
                if let Some(mb) = s.m.batches.get(&b.id) {
                    if b.batch_total_liquid_stake.u128() != mb.total {
                        v.push(viol(
                            "C05",
                            "state.batch.total",
                            format!("batch {} total {} != sum of its requests {}", b.id, b.batch_total_liquid_stake, mb.total),
                        ));
                    }
                    if let Some(r) = mb.received {
                        if mb.paid > r {
                            v.push(viol("C05", "state.batch.overpaid", format!("batch {} paid {} > received {}", b.id, mb.paid, r)));
                        }
                    }
                }
            }
            // one (accumulated) request per user and batch, equal to the model's open requests
            let mut users: Vec<String> = Vec::new();
            for mb in s.m.batches.values() {
                for u in mb.requests.keys() {
                    if !users.contains(u) {
                        users.push(u.clone());
                    }
                }
            }
            for lbl in ["u1", "u2", "u3"] {
                let a = p20(lbl);
                if !users.contains(&a) {
                    users.push(a);
                }
            }
            for u in users {
                let mut got: Vec<(u64, u128)> = s.w.requests_of(&u).into_iter().map(|r| (r.batch_id, r.amount.u128())).collect();
                got.sort();
                let mut want: Vec<(u64, u128)> =
                    s.m.batches.values().filter_map(|b| b.requests.get(&u).map(|a| (b.id, *a))).collect();
                want.sort();
                if got != want {
                    v.push(viol("C05", "state.requests.user", format!("UnstakeRequests({u}) = {:?}, reference {:?}", got, want)));
                }
            }
        }
        if has(props, "C06") {
            let pend: Vec<u64> = qb.iter().filter(|b| b.status == "pending").map(|b| b.id).collect();
            let maxid = qb.iter().map(|b| b.id).max().unwrap_or(0);
            let pb = s.w.pending_batch();
            if pend.len() != 1 || pend[0] != maxid || pb.id != maxid || pb.status != "pending" {
                v.push(viol(
                    "C06",
                    "state.pending.unique_highest",
                    format!("pending batches {:?}, highest id {}, PendingBatch id {} status {}", pend, maxid, pb.id, pb.status),
                ));
            }
            let ids: Vec<u64> = qb.iter().map(|b| b.id).collect();
            let want_ids: Vec<u64> = (1..=qb.len() as u64).collect();
            if ids != want_ids {
                v.push(viol("C06", "state.ids.contiguous", format!("batch ids {:?}", ids)));
            }
            if qb.len() != s.m.batches.len() {
                v.push(viol("C06", "state.batches.count", format!("{} batches stored, reference {}", qb.len(), s.m.batches.len())));
            }
            for b in &qb {
                if let Some(mb) = s.m.batches.get(&b.id) {
                    let ms = match mb.status {
                        MStatus::Pending => "pending",
                        MStatus::Submitted => "submitted",
                        MStatus::Received => "received",
                    };
                    if b.status != ms {
                        v.push(viol("C06", "state.batch.status", format!("batch {} is {} but its history says {}", b.id, b.status, ms)));
                    }
                    if let Some(e) = mb.expected {
                        if b.expected_native_unstaked.u128() != e {
                            v.push(viol(
                                "C06",
                                "state.batch.expected_changed",
                                format!("batch {} expected {} differs from the amount recorded at submission {}", b.id, b.expected_native_unstaked, e),
                            ));
                        }
                    }
                    if mb.status != MStatus::Received && b.next_batch_action_time.seconds() != mb.due {
                        v.push(viol(
                            "C06",
                            "state.batch.due",
                            format!("batch {} ({}) next action time {} but reference {}", b.id, b.status, b.next_batch_action_time.seconds(), mb.due),
                        ));
                    }
                }
            }
        }
    }

    if has(props, "C07") {
        let q = s.w.ibc_queue();
        let got: Vec<(u64, String, u128, String, &'static str)> = q
            .iter()
            .map(|p| {
                (
                    p.sequence,
                    p.amount.denom.clone(),
                    p.amount.amount.u128(),
                    p.receiver.clone(),
                    match p.status {
                        staking::state::ibc::PacketLifecycleStatus::Sent => "sent",
                        staking::state::ibc::PacketLifecycleStatus::AckSuccess => "ack_success",
                        staking::state::ibc::PacketLifecycleStatus::AckFailure => "failed",
                        staking::state::ibc::PacketLifecycleStatus::TimedOut => "timed_out",
                    },
                )
            })
            .collect();
        let want: Vec<(u64, String, u128, String, &'static str)> = s
            .m
            .packets
            .values()
            .map(|p| {
                (
                    p.seq,
                    p.denom.clone(),
                    p.amount,
                    p.receiver.clone(),
                    match p.status {
                        PStatus::Sent => "sent",
                        PStatus::Failed => "failed",
                        PStatus::TimedOut => "timed_out",
                    },
                )
            })
            .collect();
        if got != want {
            v.push(viol("C07", "state.queue.tracking", format!("IbcQueue {:?} but the transfers really outstanding are {:?}", got, want)));
        }
        let rq = s.w.reply_queue();
        if !rq.is_empty() {
            v.push(viol("C07", "state.reply_queue.nonempty", format!("{} pending replies between transactions", rq.len())));
        }
        for (seq, n) in &s.g.resent {
            if *n > 1 {
                v.push(viol("C07", "recover.resent_twice", format!("refund of packet {seq} was re-sent {n} times")));
            }
        }
    }
    v
}

fn rate_not_lower(pre_n: u128, pre_l: u128, post_n: u128, post_l: u128) -> bool {
    // post_n/post_l >= pre_n/pre_l  <=>  post_n*pre_l >= pre_n*post_l
    mul(post_n, pre_l) >= mul(pre_n, post_l)
}

/// Checks on one transition. `pre` is the state before, `post` after.
pub fn step_monitors(props: &[&str], pre: &Sim, act: &Act, ap: &Applied, post: &Sim) -> Vec<Violation> {
    let mut v = Vec::new();
    let sd = staked_denom();
    let lst = pre.w.lst_denom();
    let me = contract_addr();
    let pre_cfg = pre.w.config();
    let (sender, msg, funds): (String, Option<&ExecuteMsg>, Vec<(String, u128)>) = match act {
        Act::Exec { sender, msg, funds, .. } => (sender.clone(), Some(msg), funds.clone()),
        Act::Hook { from, msg, amount, .. } => (bech::hook_sender(SIM_CHANNEL, from, PROTO_PREFIX), Some(msg), vec![(sd.clone(), *amount)]),
        _ => (String::new(), None, vec![]),
    };
    let ok = ap.out.ok;
    let ps = &ap.pre_state;
    let qs = &ap.post_state;

    // the chain-written documents (ibc-hooks acknowledgement / timeout callback, operator memo) must decode:
    // a contract that cannot read them never learns of refunds, rewards or unbonded tokens
    if ap.out.undecodable {
        let what = ap.out.err.clone().unwrap_or_default();
        for p in props {
            match (*p, act) {
                ("C01" | "C02" | "C03", Act::Outcome { seq, kind }) => v.push(viol(p, "wire.callback_undecodable", format!("outcome {kind} of packet {seq}: {what}"))),
                ("C01" | "C02" | "C05" | "C06" | "C11", Act::Hook { .. }) => v.push(viol(p, "wire.hook_memo_undecodable", what.clone())),
                _ => {}
            }
        }
    }
    // every outbound transfer carries the callback memo and a future timeout (C07 mechanism)
    if has(props, "C07") {
        for e in &ap.out.events {
            if let Ev::Transfer { seq, callback, timeout_ns, memo, .. } = e {
                if !*callback {
                    v.push(viol("C07", "transfer.no_callback", format!("packet {seq} memo {memo:?} does not name the contract as ibc_callback")));
                }
                if *timeout_ns <= pre.w.time * 1_000_000_000 {
                    v.push(viol("C07", "transfer.timeout_not_future", format!("packet {seq} timeout {timeout_ns}")));
                }
            }
        }
        if let Act::Sudo { .. } = act {
            if post.w.kv != pre.w.kv || !ok {
                v.push(viol("C07", "stray.changed_state", format!("stray acknowledgement changed storage or failed (ok={ok})")));
            }
        }
        if let Act::Outcome { seq, kind } = act {
            if !ok {
                v.push(viol("C07", "outcome.callback_failed", format!("sudo for packet {seq} kind {kind} failed: {:?}", ap.out.err)));
            }
        }
        if !pre.w.ibc.up && ok {
            let sent = ap.out.events.iter().any(|e| matches!(e, Ev::Transfer { .. }));
            if sent {
                v.push(viol("C07", "ibc_down.sent", "a transfer was accepted while the channel is closed".into()));
            }
        }
    }

    let Some(msg) = msg else { return v };

    match msg {
        ExecuteMsg::LiquidStake { mint_to, transfer_to_native_chain, expected_mint_amount } => {
            let amt = funds.iter().find(|(d, _)| *d == sd).map(|(_, a)| *a).unwrap_or(0);
            let (mut n, l) = (ps.total_native_token.u128(), ps.total_liquid_stake_token.u128());
            if l == 0 {
                n = 0; // ownerless stake is swept before minting
            }
            let minted: Vec<u128> = ap
                .out
                .events
                .iter()
                .filter_map(|e| match e {
                    Ev::Mint { denom, amount, .. } if *denom == lst => Some(*amount),
                    _ => None,
                })
                .collect();
            if has(props, "C04") && ap.out.sub_errors.iter().any(|e| e.contains("MsgMint: zero amount")) {
                // the contract approved the stake and asked the token factory to mint nothing (the chain
                // then refused): "never zero" is the contract's own obligation
                v.push(viol("C04", "stake.mint.zero", format!("stake {amt} at staked {n} / LST {l}: the contract approved a mint of zero")));
            }
            if ok && has(props, "C04") {
                let want = if n == 0 { Some(amt) } else { mul_div(amt, l, n) };
                if minted.len() != 1 || Some(minted[0]) != want {
                    v.push(viol("C04", "stake.mint.formula", format!("stake {amt} at staked {n} / LST {l}: minted {:?}, floor formula gives {:?}", minted, want)));
                }
                if minted.iter().any(|m| *m == 0) || minted.is_empty() {
                    v.push(viol("C04", "stake.mint.zero", format!("stake {amt} minted nothing")));
                }
                if let Some(e) = expected_mint_amount {
                    if minted.first().copied().unwrap_or(0) < e.u128() {
                        v.push(viol("C04", "stake.mint.below_expected", format!("minted {:?} < expected {}", minted, e)));
                    }
                }
                if amt < pre_cfg.protocol_chain_config.minimum_liquid_stake_amount.u128() {
                    v.push(viol("C04", "stake.below_minimum", format!("stake of {amt} accepted below minimum {}", pre_cfg.protocol_chain_config.minimum_liquid_stake_amount)));
                }
                let (qn, ql) = (qs.total_native_token.u128(), qs.total_liquid_stake_token.u128());
                if l > 0 && !rate_not_lower(n, l, qn, ql) {
                    v.push(viol("C04", "stake.rate_lowered", format!("redemption rate fell: {n}/{l} -> {qn}/{ql}")));
                }
            }
            if ok && has(props, "C03") {
                let m = minted.iter().sum::<u128>();
                let recipient = mint_to.clone().unwrap_or_else(|| sender.clone());
                let is_native = bech::decode(&recipient).map(|d| d.hrp == pre_cfg.native_chain_config.account_address_prefix).unwrap_or(false);
                let is_proto = bech::decode(&recipient).map(|d| d.hrp == pre_cfg.protocol_chain_config.account_address_prefix).unwrap_or(false);
                let to_native = if is_native && is_proto { transfer_to_native_chain.unwrap_or(false) } else { is_native };
                let sends: Vec<(String, u128)> = ap
                    .out
                    .events
                    .iter()
                    .filter_map(|e| match e {
                        Ev::Send { to, denom, amount, .. } if *denom == lst => Some((to.clone(), *amount)),
                        _ => None,
                    })
                    .collect();
                let xfers: Vec<(String, u128)> = ap
                    .out
                    .events
                    .iter()
                    .filter_map(|e| match e {
                        Ev::Transfer { receiver, denom, amount, .. } if *denom == lst => Some((receiver.clone(), *amount)),
                        _ => None,
                    })
                    .collect();
                if to_native {
                    if xfers != vec![(recipient.clone(), m)] || !sends.is_empty() {
                        v.push(viol(
                            "C03",
                            "stake.delivery.ibc",
                            format!("minted {m} LST for native recipient {recipient}: IBC transfers {:?}, bank sends {:?}", xfers, sends),
                        ));
                    }
                } else if sends != vec![(recipient.clone(), m)] || !xfers.is_empty() {
                    v.push(viol(
                        "C03",
                        "stake.delivery.bank",
                        format!("minted {m} LST for protocol recipient {recipient}: bank sends {:?}, IBC transfers {:?}", sends, xfers),
                    ));
                }
                // nobody else's LST balance changes; the contract keeps exactly what it held
                let mut keys: Vec<&(String, String)> = pre.w.bank.keys().chain(post.w.bank.keys()).filter(|(_, d)| *d == lst).collect();
                keys.sort();
                keys.dedup();
                for (a, d) in keys {
                    let before = pre.w.bal(a, d);
                    let after = post.w.bal(a, d);
                    let want = if !to_native && *a == recipient { before + m } else { before };
                    if after != want {
                        v.push(viol("C03", "stake.delivery.other_balance", format!("LST balance of {a} went {before} -> {after}, expected {want}")));
                    }
                }
            }
        }
        ExecuteMsg::SubmitBatch {} => {
            let mb = pre.m.batches.get(&pre.m.pending);
            if let Some(mb) = mb {
                if ok && has(props, "C03") {
                    let burns: Vec<u128> = ap
                        .out
                        .events
                        .iter()
                        .filter_map(|e| match e {
                            Ev::Burn { denom, amount, from, .. } if *denom == lst && *from == me => Some(*amount),
                            _ => None,
                        })
                        .collect();
                    if burns != vec![mb.total] {
                        v.push(viol("C03", "submit.burn", format!("batch {} total {} but burned {:?}", mb.id, mb.total, burns)));
                    }
                }
                if ok && has(props, "C04") {
                    let (n, l) = (ps.total_native_token.u128(), ps.total_liquid_stake_token.u128());
                    let want = if mb.total == 0 { Some(0) } else { mul_div(n, mb.total, l) };
                    let got = post.m.batches.get(&mb.id).and_then(|b| b.expected);
                    if got != want {
                        v.push(viol("C04", "submit.unbond.formula", format!("batch {} of {} LST at {n}/{l}: set aside {:?}, floor formula {:?}", mb.id, mb.total, got, want)));
                    }
                    let (qn, ql) = (qs.total_native_token.u128(), qs.total_liquid_stake_token.u128());
                    if ql > 0 && !rate_not_lower(n, l, qn, ql) {
                        v.push(viol("C04", "submit.rate_lowered", format!("redemption rate fell: {n}/{l} -> {qn}/{ql}")));
                    }
                    if l >= mb.total && (qn != n - want.unwrap_or(0).min(n) || ql != l - mb.total) {
                        v.push(viol("C04", "submit.totals", format!("totals {n}/{l} -> {qn}/{ql} after setting aside {:?} for {} LST", want, mb.total)));
                    }
                }
                if has(props, "C06") {
                    let should = !pre.m.halted && !mb.requests.is_empty() && pre.w.time >= mb.due;
                    if ok != should {
                        v.push(viol(
                            "C06",
                            if ok { "submit.accepted_early_or_empty" } else { "submit.refused_when_due" },
                            format!(
                                "SubmitBatch by {sender} at t={} (due {}, {} requests, halted {}): ok={ok} err={:?}",
                                pre.w.time,
                                mb.due,
                                mb.requests.len(),
                                pre.m.halted,
                                ap.out.err
                            ),
                        ));
                    }
                    if ok {
                        let np = post.w.pending_batch();
                        if np.id != mb.id + 1 || np.next_batch_action_time.seconds() != pre.w.time + pre_cfg.batch_period {
                            v.push(viol(
                                "C06",
                                "submit.new_pending",
                                format!("new pending batch id {} due {}, expected id {} due {}", np.id, np.next_batch_action_time.seconds(), mb.id + 1, pre.w.time + pre_cfg.batch_period),
                            ));
                        }
                    }
                }
            }
        }
        ExecuteMsg::ReceiveUnstakedTokens { batch_id } => {
            if has(props, "C06") {
                let hs = bech::hook_sender(SIM_CHANNEL, pre_cfg.native_chain_config.staker_address.as_str(), PROTO_PREFIX);
                let amount = funds.iter().find(|(d, _)| *d == sd).map(|(_, a)| *a).unwrap_or(0);
                let should = match pre.m.batches.get(batch_id) {
                    Some(b) => !pre.m.halted && sender == hs && b.status == MStatus::Submitted && pre.w.time >= b.due && amount > 0 && pre_cfg.protocol_chain_config.ibc_channel_id == SIM_CHANNEL,
                    None => false,
                };
                if ok != should {
                    v.push(viol(
                        "C06",
                        if ok { "deliver.accepted_wrongly" } else { "deliver.refused_wrongly" },
                        format!("ReceiveUnstakedTokens({batch_id}) from {sender} at t={} ok={ok} err={:?}; reference says {should}", pre.w.time, ap.out.err),
                    ));
                }
            }
        }
        ExecuteMsg::Withdraw { batch_id } => {
            if has(props, "C05") {
                let mb = pre.m.batches.get(batch_id);
                let open = mb.and_then(|b| b.requests.get(&sender).copied());
                let should = !pre.m.halted && mb.map(|b| b.status == MStatus::Received).unwrap_or(false) && open.is_some();
                if ok != should {
                    v.push(viol(
                        "C05",
                        if ok { "withdraw.accepted_wrongly" } else { "withdraw.refused_wrongly" },
                        format!("Withdraw({batch_id}) by {sender}: ok={ok} err={:?}; reference says {should} (open request {:?})", ap.out.err, open),
                    ));
                }
                if ok && should {
                    let b = mb.unwrap();
                    let want = mul_div(b.received.unwrap_or(0), open.unwrap(), b.total);
                    let sends: Vec<(String, u128)> = ap
                        .out
                        .events
                        .iter()
                        .filter_map(|e| match e {
                            Ev::Send { to, denom, amount, .. } if *denom == sd => Some((to.clone(), *amount)),
                            Ev::ZeroSend { to, denom } if *denom == sd => Some((to.clone(), 0)),
                            _ => None,
                        })
                        .collect();
                    if sends.len() != 1 || sends[0].0 != sender || Some(sends[0].1) != want {
                        v.push(viol(
                            "C05",
                            "withdraw.payout",
                            format!("Withdraw({batch_id}) by {sender}: request {:?} of total {} with {:?} received: paid {:?}, pro-rata floor {:?}", open, b.total, b.received, sends, want),
                        ));
                    }
                    // only that request is consumed
                    for (u, a) in &b.requests {
                        if *u != sender {
                            let still = post.w.requests_of(u).iter().any(|r| r.batch_id == *batch_id && r.amount.u128() == *a);
                            if !still {
                                v.push(viol("C05", "withdraw.consumed_other", format!("request of {u} in batch {batch_id} changed by {sender}'s withdrawal")));
                            }
                        }
                    }
                }
            }
            if has(props, "C02") && ap.out.sub_errors.iter().any(|e| e.contains("insufficient funds")) {
                v.push(viol("C02", "withdraw.unpaid", format!("Withdraw({batch_id}) by {sender} was approved by the contract but the bank could not pay: {:?}", ap.out.sub_errors)));
            }
        }
        ExecuteMsg::ReceiveRewards {} => {
            if has(props, "C11") {
                let amount = funds.iter().find(|(d, _)| *d == sd).map(|(_, a)| *a).unwrap_or(0);
                // the fee configuration in force is the one last supplied successfully (reference model)
                let rate = pre.m.fee_rate;
                let fee = mul_div(rate, amount, 100_000);
                if ok {
                    if ps.total_liquid_stake_token.is_zero() {
                        v.push(viol("C11", "rewards.accepted_without_lst", "reward accepted while no LST exists".into()));
                    }
                    match fee {
                        Some(fee) if fee <= amount => {
                            let fwd: Vec<u128> = ap
                                .out
                                .events
                                .iter()
                                .filter_map(|e| match e {
                                    Ev::Transfer { denom, amount, .. } if *denom == sd => Some(*amount),
                                    _ => None,
                                })
                                .collect();
                            if fwd != vec![amount - fee] {
                                v.push(viol("C11", "rewards.forward", format!("reward {amount} at rate {rate}: fee {fee}, restaked {:?}, expected {}", fwd, amount - fee)));
                            }
                            if qs.total_native_token.u128() != ps.total_native_token.u128() + (amount - fee) {
                                v.push(viol("C11", "rewards.staked_total", format!("staked total {} -> {} after reward {amount} fee {fee}", ps.total_native_token, qs.total_native_token)));
                            }
                            if qs.total_reward_amount.u128() != ps.total_reward_amount.u128() + amount {
                                v.push(viol("C11", "rewards.counter", format!("reward counter {} -> {} after reward {amount}", ps.total_reward_amount, qs.total_reward_amount)));
                            }
                            let tre_sends: Vec<(String, u128)> = ap
                                .out
                                .events
                                .iter()
                                .filter_map(|e| match e {
                                    Ev::Send { to, denom, amount, .. } if *denom == sd => Some((to.clone(), *amount)),
                                    Ev::ZeroSend { to, denom } if *denom == sd => Some((to.clone(), 0)),
                                    _ => None,
                                })
                                .collect();
                            match &pre.m.treasury {
                                Some(t) => {
                                    if tre_sends != vec![(t.to_string(), fee)] {
                                        v.push(viol("C11", "rewards.fee.to_treasury", format!("fee {fee} with treasury {t}: sends {:?}", tre_sends)));
                                    }
                                    if qs.total_fees != ps.total_fees {
                                        v.push(viol("C11", "rewards.fee.accrued_and_paid", format!("fee {fee} paid to treasury but total_fees {} -> {}", ps.total_fees, qs.total_fees)));
                                    }
                                }
                                None => {
                                    if !tre_sends.is_empty() {
                                        v.push(viol("C11", "rewards.fee.sent_without_treasury", format!("sends {:?}", tre_sends)));
                                    }
                                    if qs.total_fees.u128() != ps.total_fees.u128() + fee {
                                        v.push(viol("C11", "rewards.fee.accrual", format!("fee {fee}: total_fees {} -> {}", ps.total_fees, qs.total_fees)));
                                    }
                                }
                            }
                        }
                        _ => v.push(viol("C11", "rewards.accepted_fee_exceeds", format!("reward {amount} accepted although fee {:?} exceeds it", fee))),
                    }
                }
            }
        }
        ExecuteMsg::FeeWithdraw { amount } => {
            if has(props, "C11") {
                let is_admin = pre.w.admin().as_deref() == Some(sender.as_str());
                let a = amount.u128();
                let allowed = is_admin && a <= ps.total_fees.u128() && pre.m.treasury.is_some();
                if ok && !allowed {
                    v.push(viol("C11", "fee_withdraw.accepted_wrongly", format!("FeeWithdraw({a}) by {sender} accepted: admin={is_admin} fees={} treasury={:?}", ps.total_fees, pre.m.treasury)));
                }
                // (not judged while the bank refuses payments to the treasury: fault 4)
                if !ok && allowed && pre.w.bal(&me, &sd) >= a && pre.w.ibc.reply_fault != 4 {
                    v.push(viol("C11", "fee_withdraw.refused_wrongly", format!("FeeWithdraw({a}) by admin refused: {:?}", ap.out.err)));
                }
                if ok && allowed {
                    let t = pre.m.treasury.clone().unwrap();
                    let sends: Vec<(String, u128)> = ap
                        .out
                        .events
                        .iter()
                        .filter_map(|e| match e {
                            Ev::Send { to, denom, amount, .. } if *denom == sd => Some((to.clone(), *amount)),
                            Ev::ZeroSend { to, denom } if *denom == sd => Some((to.clone(), 0)),
                            _ => None,
                        })
                        .collect();
                    if sends != vec![(t.clone(), a)] {
                        v.push(viol("C11", "fee_withdraw.payment", format!("FeeWithdraw({a}) to treasury {t}: sends {:?}", sends)));
                    }
                    if qs.total_fees.u128() != ps.total_fees.u128() - a {
                        v.push(viol("C11", "fee_withdraw.balance", format!("total_fees {} -> {} after withdrawing {a}", ps.total_fees, qs.total_fees)));
                    }
                }
            }
            if has(props, "C02") && ap.out.sub_errors.iter().any(|e| e.contains("insufficient funds")) {
                v.push(viol("C02", "fee_withdraw.unpaid", format!("FeeWithdraw approved by the contract but the bank could not pay: {:?}", ap.out.sub_errors)));
            }
        }
        ExecuteMsg::RecoverPendingIbcTransfers { selected_packets, receiver, .. } => {
            if has(props, "C07") {
                let sel = ap.recover_selected.clone().unwrap_or_default();
                let is_admin = pre.w.admin().as_deref() == Some(sender.as_str());
                let recv = receiver.clone().unwrap_or_else(|| pre_cfg.native_chain_config.staker_address.to_string());
                if ok {
                    if selected_packets.is_some() && !is_admin {
                        v.push(viol("C07", "recover.forced.non_admin", format!("forced recovery by non-admin {sender} accepted")));
                    }
                    let mut distinct = sel.clone();
                    distinct.sort();
                    distinct.dedup();
                    let pk: Vec<&MPacket> = distinct.iter().filter_map(|s| pre.m.packets.get(s)).collect();
                    let sum: u128 = pk.iter().map(|p| p.amount).sum();
                    let denoms: Vec<&String> = {
                        let mut d: Vec<&String> = pk.iter().map(|p| &p.denom).collect();
                        d.sort();
                        d.dedup();
                        d
                    };
                    let xf: Vec<(String, String, u128)> = ap
                        .out
                        .events
                        .iter()
                        .filter_map(|e| match e {
                            Ev::Transfer { receiver, denom, amount, .. } => Some((receiver.clone(), denom.clone(), *amount)),
                            _ => None,
                        })
                        .collect();
                    if selected_packets.is_none() && pk.iter().any(|p| p.status == PStatus::Sent) {
                        v.push(viol("C07", "recover.inflight_resent", "a packet still in flight was re-sent by a permissionless recovery".into()));
                    }
                    if pk.len() != distinct.len() || pk.is_empty() {
                        v.push(viol("C07", "recover.unknown_packet", format!("recovery of {:?} accepted but outstanding are {:?}", sel, pre.m.packets.keys().collect::<Vec<_>>())));
                    } else if denoms.len() != 1 {
                        v.push(viol("C07", "recover.mixed_denoms", format!("recovery summed different denoms {:?}", denoms)));
                    } else if pk.iter().any(|p| p.receiver != recv) {
                        v.push(viol("C07", "recover.other_receiver", format!("recovery for {recv} consumed packets of another receiver: {:?}", pk)));
                    } else if xf != vec![(recv.clone(), denoms[0].clone(), sum)] {
                        let key = if sel.len() != distinct.len() { "recover.forced.duplicate_ids" } else { "recover.sum" };
                        v.push(viol(
                            "C07",
                            key,
                            format!("recovery of packets {:?} (refundable sum {sum} {} for {recv}) emitted transfers {:?}", sel, denoms[0], xf),
                        ));
                    }
                } else {
                    // must succeed when the permissionless selection is non-empty, single-denom, and the channel is up
                    let pk: Vec<&MPacket> = sel.iter().filter_map(|s| pre.m.packets.get(s)).collect();
                    let single = {
                        let mut d: Vec<&String> = pk.iter().map(|p| &p.denom).collect();
                        d.sort();
                        d.dedup();
                        d.len() == 1
                    };
                    // the contract approved a recovery (it emitted a transfer that the chain then refused)
                    // although the selection mixes denoms or is empty: it must refuse such a recovery itself
                    if selected_packets.is_none() && !ap.out.sub_errors.is_empty() && pre.w.ibc.up && pre.w.ibc.reply_fault == 0 && (!single || pk.is_empty()) {
                        v.push(viol("C07", "recover.mixed_denoms", format!("recovery of {:?} for {recv} was approved by the contract (then failed in the chain: {:?}) although it is not a single-denom refundable set", sel, ap.out.sub_errors)));
                    }
                    let recv_ok = bech::decode(&recv).map(|d| d.hrp == pre_cfg.native_chain_config.account_address_prefix).unwrap_or(false);
                    if selected_packets.is_none() && !pk.is_empty() && single && pre.w.ibc.up && recv_ok && pre.w.ibc.reply_fault == 0 {
                        v.push(viol("C07", "recover.refused_wrongly", format!("recovery of refundable {:?} for {recv} refused: {:?}", sel, ap.out.err)));
                    }
                }
            }
            if has(props, "C02") && ap.out.sub_errors.iter().any(|e| e.contains("insufficient funds")) && selected_packets.is_none() {
                v.push(viol("C02", "recover.unpaid", format!("recovery approved by the contract but the bank could not pay: {:?}", ap.out.sub_errors)));
            }
        }
        _ => {}
    }

    // C15: rates posted to the oracle are those of the post-state
    if has(props, "C15") {
        if let Some(e) = &ap.post_state_err {
            v.push(viol("C15", "state.query_failed", format!("after {} the State query cannot report the purchase rate: {e}", exec_name(msg))));
        }
        let posts: Vec<(String, String, String, usize)> = ap
            .out
            .events
            .iter()
            .filter_map(|e| match e {
                Ev::Oracle { contract, sender, msg, funds } => Some((contract.clone(), sender.clone(), msg.clone(), *funds)),
                _ => None,
            })
            .collect();
        let changed = ps.total_native_token != qs.total_native_token || ps.total_liquid_stake_token != qs.total_liquid_stake_token;
        match &pre_cfg.protocol_chain_config.oracle_address {
            Some(orc) => {
                if ok && changed {
                    let (n, l) = (qs.total_native_token.u128(), qs.total_liquid_stake_token.u128());
                    let (red, pur) = if l == 0 { (Some(0), Some(0)) } else { (dec18_ratio(n, l), dec18_ratio(l, n)) };
                    if let (Some(red), Some(pur)) = (red, pur) {
                        let want = serde_json::json!({"post_rates": {"denom": lst, "purchase_rate": dec18_to_string(pur), "redemption_rate": dec18_to_string(red)}});
                        let good = posts.len() == 1
                            && posts[0].0 == orc.as_str()
                            && posts[0].1 == me
                            && posts[0].3 == 0
                            && serde_json::from_str::<serde_json::Value>(&posts[0].2).map(|x| x == want).unwrap_or(false);
                        if !good {
                            v.push(viol(
                                "C15",
                                &format!("oracle.post_state_rates.{}", exec_name(msg)),
                                format!("{} changed totals to {n}/{l}; expected one post {} to {orc}; got {:?}", exec_name(msg), want, posts),
                            ));
                        }
                        if qs.rate.atomics().u128() != pur {
                            v.push(viol("C15", "state.rate", format!("State.rate {} but purchase rate of the post-state is {}", qs.rate, dec18_to_string(pur))));
                        }
                    }
                }
            }
            None => {
                if !posts.is_empty() {
                    v.push(viol("C15", "oracle.posted_without_oracle", format!("{:?}", posts)));
                }
            }
        }
    }
    v
}
