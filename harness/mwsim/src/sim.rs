//! Simulation layer on top of the world: actions, ghost ledger, reference model and the
//! lock-step conformance between the reference model and the contract's queries.

use crate::world::*;
use serde::{Deserialize, Serialize};
use staking::msg::{ExecuteMsg, SudoMsg};
use std::collections::BTreeMap;

#[derive(Clone, Debug, Serialize, Deserialize, PartialEq)]
pub enum Act {
    /// a transaction executing the staking contract; `hold`: packets it sends stay in flight
    /// (default: each is acknowledged successfully right after the transaction)
    Exec {
        sender: String,
        msg: ExecuteMsg,
        #[serde(with = "funds_as_strings")]
        funds: Vec<(String, u128)>,
        hold: bool,
    },
    /// ICS-20 transfer of the staked asset from the native chain with a wasm-hook memo
    Hook {
        from: String,
        #[serde(with = "u128_as_string")]
        amount: u128,
        msg: ExecuteMsg,
        #[serde(with = "u128_as_string")]
        mint: u128,
        hold: bool,
    },
    /// outcome of an in-flight packet: 0 ack ok, 1 ack error, 2 timeout
    Outcome { seq: u64, kind: u8 },
    /// a sudo call that does not belong to a packet of the simulator's channel (stray)
    Sudo { msg: SudoMsg },
    Advance { to: u64 },
    IbcUp { up: bool },
    ReplyFault { mode: u8 },
}

/// serde_json has no 128-bit numbers: amounts in replay files are decimal strings
mod u128_as_string {
    use serde::{Deserialize, Deserializer, Serializer};
    pub fn serialize<S: Serializer>(v: &u128, s: S) -> Result<S::Ok, S::Error> {
        s.serialize_str(&v.to_string())
    }
    pub fn deserialize<'de, D: Deserializer<'de>>(d: D) -> Result<u128, D::Error> {
        #[derive(Deserialize)]
        #[serde(untagged)]
        enum E {
            S(String),
            N(u64),
        }
        match E::deserialize(d)? {
            E::S(s) => s.parse().map_err(serde::de::Error::custom),
            E::N(n) => Ok(n as u128),
        }
    }
}
mod funds_as_strings {
    use serde::ser::SerializeSeq;
    use serde::{Deserialize, Deserializer, Serializer};
    pub fn serialize<S: Serializer>(v: &[(String, u128)], s: S) -> Result<S::Ok, S::Error> {
        let mut seq = s.serialize_seq(Some(v.len()))?;
        for (d, a) in v {
            seq.serialize_element(&(d, a.to_string()))?;
        }
        seq.end()
    }
    pub fn deserialize<'de, D: Deserializer<'de>>(d: D) -> Result<Vec<(String, u128)>, D::Error> {
        #[derive(Deserialize)]
        #[serde(untagged)]
        enum E {
            S(String),
            N(u64),
        }
        let raw: Vec<(String, E)> = Vec::deserialize(d)?;
        raw.into_iter()
            .map(|(d, a)| {
                Ok((
                    d,
                    match a {
                        E::S(s) => s.parse().map_err(serde::de::Error::custom)?,
                        E::N(n) => n as u128,
                    },
                ))
            })
            .collect()
    }
}

pub fn act_label(a: &Act) -> String {
    match a {
        Act::Exec { msg, hold, .. } => format!("{}{}", exec_name(msg), if *hold { "+hold" } else { "" }),
        Act::Hook { msg, hold, .. } => format!("Hook{}{}", exec_name(msg), if *hold { "+hold" } else { "" }),
        Act::Outcome { kind, .. } => ["AckOk", "AckErr", "Timeout"][*kind as usize].to_string(),
        Act::Sudo { .. } => "StraySudo".into(),
        Act::Advance { .. } => "Advance".into(),
        Act::IbcUp { up } => format!("IbcUp({up})"),
        Act::ReplyFault { mode } => format!("ReplyFault({mode})"),
    }
}

pub fn exec_name(m: &ExecuteMsg) -> &'static str {
    match m {
        ExecuteMsg::LiquidStake { .. } => "LiquidStake",
        ExecuteMsg::LiquidUnstake {} => "LiquidUnstake",
        ExecuteMsg::SubmitBatch {} => "SubmitBatch",
        ExecuteMsg::Withdraw { .. } => "Withdraw",
        ExecuteMsg::AddValidator { .. } => "AddValidator",
        ExecuteMsg::RemoveValidator { .. } => "RemoveValidator",
        ExecuteMsg::TransferOwnership { .. } => "TransferOwnership",
        ExecuteMsg::AcceptOwnership {} => "AcceptOwnership",
        ExecuteMsg::RevokeOwnershipTransfer {} => "RevokeOwnershipTransfer",
        ExecuteMsg::UpdateConfig { .. } => "UpdateConfig",
        ExecuteMsg::ReceiveRewards {} => "ReceiveRewards",
        ExecuteMsg::ReceiveUnstakedTokens { .. } => "ReceiveUnstakedTokens",
        ExecuteMsg::CircuitBreaker {} => "CircuitBreaker",
        ExecuteMsg::ResumeContract { .. } => "ResumeContract",
        ExecuteMsg::RecoverPendingIbcTransfers { .. } => "RecoverPendingIbcTransfers",
        ExecuteMsg::FeeWithdraw { .. } => "FeeWithdraw",
    }
}

#[derive(Clone, Copy, Debug, Hash, PartialEq, Eq, Serialize)]
pub enum MStatus {
    Pending,
    Submitted,
    Received,
}

#[derive(Clone, Debug, Hash, PartialEq, Eq, Serialize)]
pub struct MBatch {
    pub id: u64,
    pub status: MStatus,
    /// open requests
    pub requests: BTreeMap<String, u128>,
    /// sum of every request ever made into the batch
    pub total: u128,
    /// distinct requesters ever
    pub requesters: u64,
    /// next action time: due time (Pending), unbonding end (Submitted)
    pub due: u64,
    pub expected: Option<u128>,
    pub received: Option<u128>,
    /// tokens actually paid out by Withdraw transactions (bank movements)
    pub paid: u128,
}

#[derive(Clone, Copy, Debug, Hash, PartialEq, Eq, Serialize)]
pub enum PStatus {
    Sent,
    Failed,
    TimedOut,
}

#[derive(Clone, Debug, Hash, PartialEq, Eq, Serialize)]
pub struct MPacket {
    pub seq: u64,
    pub denom: String,
    pub amount: u128,
    pub receiver: String,
    pub status: PStatus,
}

/// reference model, maintained only from what the property statements say and from what the
/// simulator saw move; never from the contract's storage
#[derive(Clone, Debug, Hash, PartialEq, Eq, Serialize)]
pub struct Model {
    pub batches: BTreeMap<u64, MBatch>,
    pub pending: u64,
    pub packets: BTreeMap<u64, MPacket>,
    pub halted: bool,
    /// roles as the history of successful operations defines them (not as the contract reports them)
    pub admin: String,
    pub nominee: Option<String>,
    pub monitors: Vec<String>,
    /// fee configuration as last successfully supplied (instantiate / UpdateConfig)
    pub fee_rate: u128,
    pub treasury: Option<String>,
}

#[derive(Clone, Debug, Hash, PartialEq, Eq, Serialize, Default)]
pub struct Ghost {
    /// staked total right after the last ResumeContract (the admin overwrites the totals)
    pub base_native: u128,
    /// staked asset forwarded toward the staker by stakes / rewards since the last resume
    pub fwd: u128,
    /// expected amounts of batches submitted since the last resume
    pub set_aside: u128,
    /// ownerless stake swept to fees since the last resume
    pub swept: u128,
    /// never reset: forwarded staked asset, and what was acknowledged on the native chain
    pub fwd_total: u128,
    pub acked_total: u128,
    /// the operator delivered exactly what was expected, no resume changed totals, no sweep
    pub honest: bool,
    /// staked asset the operator (staker) sent back for batches
    pub delivered_total: u128,
    /// fees: accrued in contract (no treasury) / paid directly / withdrawn
    pub fees_accrued: u128,
    pub fees_withdrawn: u128,
    pub fees_direct: u128,
    /// deviations from the benign environment used so far
    pub dev: u8,
    /// refund re-sent counter per original sequence (C07: each at most once)
    pub resent: BTreeMap<u64, u8>,
    /// endowment of staked asset given to protocol-chain users (for the simulator self-check)
    pub endowment: u128,
    /// LST handed to the IBC module by stakes, per native-chain recipient; and what was acknowledged there
    pub lst_sent: BTreeMap<String, u128>,
    pub lst_acked: BTreeMap<String, u128>,
    /// activity bounds of the menus are relative to what the scripted seed had already used
    pub seed_batches: u64,
    pub seed_seq: u64,
    /// violations observed by the monitors while the scripted prefix of a seed was executed
    /// (property, key, detail): every scripted step is judged like an explored transition
    pub seed_viol: Vec<(String, String, String)>,
}

#[derive(Clone, Debug, Hash, PartialEq, Eq)]
pub struct Sim {
    pub w: World,
    pub m: Model,
    pub g: Ghost,
}

pub struct Applied {
    pub out: TxOut,
    /// auto-acknowledgements performed after the transaction
    pub acks: Vec<(u64, TxOut)>,
    /// facts observed by apply() for the step monitors
    pub pre_state: staking::msg::StateResponse,
    pub post_state: staking::msg::StateResponse,
    /// model-predicted selection of a recovery (sequence numbers), if the action was a recovery
    pub recover_selected: Option<Vec<u64>>,
    /// the State query failed (or panicked) on the post-state
    pub post_state_err: Option<String>,
}

impl Sim {
    pub fn new(k: &K) -> Result<Sim, String> {
        let w = World::new(k)?;
        let mut batches = BTreeMap::new();
        batches.insert(
            1,
            MBatch {
                id: 1,
                status: MStatus::Pending,
                requests: BTreeMap::new(),
                total: 0,
                requesters: 0,
                due: w.time + k.batch_period,
                expected: None,
                received: None,
                paid: 0,
            },
        );
        Ok(Sim {
            w,
            m: Model { batches, pending: 1, packets: BTreeMap::new(), halted: true, admin: p20("adm"), nominee: None, monitors: monitors_of(k), fee_rate: k.fee, treasury: if k.treasury { Some(p20("tre")) } else { None } },
            g: Ghost { honest: true, ..Default::default() },
        })
    }

    pub fn fund(&mut self, who: &str, amt: u128) {
        self.w.fund(who, amt);
        self.g.endowment += amt;
    }

    /// refundable packets of the model
    pub fn refundable(&self) -> impl Iterator<Item = &MPacket> {
        self.m.packets.values().filter(|p| p.status != PStatus::Sent)
    }

    /// the selection a recovery is specified to make (C07): refundable packets of the chosen
    /// receiver (default: the configured staker), the first ten in sequence order when paginated;
    /// or the admin's explicit list
    pub fn predict_recover(&self, paginated: bool, selected: &Option<Vec<u64>>, receiver: &Option<String>) -> Vec<u64> {
        let cfg = self.w.config();
        let recv = receiver.clone().unwrap_or_else(|| cfg.native_chain_config.staker_address.to_string());
        match selected {
            Some(ids) => ids.clone(),
            None => {
                let it = self.m.packets.values().filter(|p| p.status != PStatus::Sent && p.receiver == recv).map(|p| p.seq);
                if paginated {
                    it.take(10).collect()
                } else {
                    it.collect()
                }
            }
        }
    }

    pub fn apply(&mut self, act: &Act) -> Applied {
        let pre_state = self.w.state();
        let mut recover_selected = None;
        let (out, hold) = match act {
            Act::Exec { sender, msg, funds, hold } => {
                if let ExecuteMsg::RecoverPendingIbcTransfers { paginated, selected_packets, receiver } = msg {
                    recover_selected = Some(self.predict_recover(paginated.unwrap_or(false), selected_packets, receiver));
                }
                let pre_cfg = self.w.config();
                let out = self.w.exec(sender, msg.clone(), funds);
                if out.ok {
                    self.after_exec(sender, msg, funds, &out, &pre_state, &pre_cfg, recover_selected.as_ref());
                }
                (out, *hold)
            }
            Act::Hook { from, amount, msg, mint, hold } => {
                let pre_cfg = self.w.config();
                let out = self.w.hook_deliver(from, &staked_denom(), *amount, msg.clone(), *mint);
                if out.ok && *mint > 0 && matches!(msg, ExecuteMsg::ReceiveUnstakedTokens { .. }) {
                    // the operator returned tokens the staker did not hold (it topped the delivery up from
                    // outside, e.g. because stakes were still in flight): the "honest operator, exact
                    // backing" identity of C01 no longer applies from here on
                    self.g.honest = false;
                }
                if out.ok {
                    let hook = crate::bech::hook_sender(SIM_CHANNEL, from, PROTO_PREFIX);
                    self.after_exec(&hook, msg, &[(staked_denom(), *amount)], &out, &pre_state, &pre_cfg, None);
                }
                (out, *hold)
            }
            Act::Outcome { seq, kind } => {
                let out = self.settle(*seq, *kind);
                (out, true)
            }
            Act::Sudo { msg } => (self.w.sudo(msg.clone()), true),
            Act::Advance { to } => {
                if *to > self.w.time {
                    self.w.time = *to;
                    (TxOut { ok: true, ..Default::default() }, true)
                } else {
                    (TxOut { ok: false, err: Some("time does not go back".into()), ..Default::default() }, true)
                }
            }
            Act::IbcUp { up } => {
                self.w.ibc.up = *up;
                (TxOut { ok: true, ..Default::default() }, true)
            }
            Act::ReplyFault { mode } => {
                self.w.ibc.reply_fault = *mode;
                (TxOut { ok: true, ..Default::default() }, true)
            }
        };
        let mut acks = Vec::new();
        if out.ok && !hold {
            for seq in out.new_packets.clone() {
                let o = self.settle(seq, 0);
                acks.push((seq, o));
            }
        }
        let post_state = self.w.state();
        let post_state_err = self.w.state_checked().err();
        Applied { out, acks, pre_state, post_state, recover_selected, post_state_err }
    }

    fn settle(&mut self, seq: u64, kind: u8) -> TxOut {
        let pk = self.w.ibc.flight.get(&seq).cloned();
        let out = self.w.outcome(seq, kind);
        if let Some(p) = pk {
            if out.ok {
                if kind == 0 {
                    if p.denom == staked_denom() && p.receiver == n20(&self.w.k, "staker") {
                        self.g.acked_total += p.amount;
                    }
                    if p.denom == self.w.lst_denom() {
                        *self.g.lst_acked.entry(p.receiver.clone()).or_insert(0) += p.amount;
                    }
                    if p.callback {
                        self.m.packets.remove(&seq);
                    }
                } else if p.callback {
                    if let Some(mp) = self.m.packets.get_mut(&seq) {
                        mp.status = if kind == 1 { PStatus::Failed } else { PStatus::TimedOut };
                    }
                }
            }
        }
        out
    }

    #[allow(clippy::too_many_arguments)]
    fn after_exec(
        &mut self,
        sender: &str,
        msg: &ExecuteMsg,
        funds: &[(String, u128)],
        out: &TxOut,
        pre: &staking::msg::StateResponse,
        pre_cfg: &staking::msg::ConfigResponse,
        recover_selected: Option<&Vec<u64>>,
    ) {
        let sd = staked_denom();
        let lst = self.w.lst_denom();
        // packets really handed to the IBC module
        for e in &out.events {
            if let Ev::Transfer { seq, denom, amount, receiver, callback, .. } = e {
                if *callback {
                    self.m.packets.insert(
                        *seq,
                        MPacket { seq: *seq, denom: denom.clone(), amount: *amount, receiver: receiver.clone(), status: PStatus::Sent },
                    );
                }
            }
        }
        let staked_fwd: u128 = out
            .events
            .iter()
            .filter_map(|e| match e {
                Ev::Transfer { denom, amount, .. } if *denom == sd => Some(*amount),
                _ => None,
            })
            .sum();
        match msg {
            ExecuteMsg::LiquidStake { .. } => {
                for e in &out.events {
                    if let Ev::Transfer { denom, amount, receiver, .. } = e {
                        if *denom == lst {
                            *self.g.lst_sent.entry(receiver.clone()).or_insert(0) += amount;
                        }
                    }
                }
                self.g.fwd += staked_fwd;
                self.g.fwd_total += staked_fwd;
                let post = self.w.state();
                let sw = post.total_fees.u128().saturating_sub(pre.total_fees.u128());
                if sw > 0 {
                    self.g.swept += sw;
                    self.g.honest = false;
                }
            }
            ExecuteMsg::ReceiveRewards {} => {
                self.g.fwd += staked_fwd;
                self.g.fwd_total += staked_fwd;
                let amount = funds.iter().find(|(d, _)| *d == sd).map(|(_, a)| *a).unwrap_or(0);
                let fee = amount - staked_fwd.min(amount);
                if pre_cfg.protocol_fee_config.treasury_address.is_some() {
                    self.g.fees_direct += fee;
                } else {
                    self.g.fees_accrued += fee;
                }
            }
            ExecuteMsg::LiquidUnstake {} => {
                let amt = funds.iter().find(|(d, _)| *d == lst).map(|(_, a)| *a).unwrap_or(0);
                let b = self.m.batches.get_mut(&self.m.pending).unwrap();
                if !b.requests.contains_key(sender) {
                    b.requesters += 1;
                }
                *b.requests.entry(sender.to_string()).or_insert(0) += amt;
                b.total += amt;
            }
            ExecuteMsg::SubmitBatch {} => {
                let id = self.m.pending;
                let now = self.w.time;
                let q: Result<staking::msg::BatchResponse, String> = self.w.query(staking::msg::QueryMsg::Batch { id });
                let exp = q.map(|b| b.expected_native_unstaked.u128()).unwrap_or(0);
                {
                    let b = self.m.batches.get_mut(&id).unwrap();
                    b.status = MStatus::Submitted;
                    b.due = now + pre_cfg.native_chain_config.unbonding_period;
                    b.expected = Some(exp);
                }
                self.g.set_aside += exp;
                self.m.pending = id + 1;
                self.m.batches.insert(
                    id + 1,
                    MBatch {
                        id: id + 1,
                        status: MStatus::Pending,
                        requests: BTreeMap::new(),
                        total: 0,
                        requesters: 0,
                        due: now + pre_cfg.batch_period,
                        expected: None,
                        received: None,
                        paid: 0,
                    },
                );
            }
            ExecuteMsg::ReceiveUnstakedTokens { batch_id } => {
                let amount = funds.iter().find(|(d, _)| *d == sd).map(|(_, a)| *a).unwrap_or(0);
                if let Some(b) = self.m.batches.get_mut(batch_id) {
                    if b.expected != Some(amount) {
                        self.g.honest = false;
                    }
                    b.status = MStatus::Received;
                    b.received = Some(amount);
                }
                self.g.delivered_total += amount;
            }
            ExecuteMsg::Withdraw { batch_id } => {
                let paid: u128 = out
                    .events
                    .iter()
                    .filter_map(|e| match e {
                        Ev::Send { denom, amount, .. } if *denom == sd => Some(*amount),
                        _ => None,
                    })
                    .sum();
                if let Some(b) = self.m.batches.get_mut(batch_id) {
                    b.requests.remove(sender);
                    b.paid += paid;
                }
            }
            ExecuteMsg::FeeWithdraw { .. } => {
                let paid: u128 = out
                    .events
                    .iter()
                    .filter_map(|e| match e {
                        Ev::Send { denom, amount, .. } if *denom == sd => Some(*amount),
                        _ => None,
                    })
                    .sum();
                self.g.fees_withdrawn += paid;
            }
            ExecuteMsg::CircuitBreaker {} => {
                self.m.halted = true;
            }
            ExecuteMsg::TransferOwnership { new_owner } => {
                self.m.nominee = Some(new_owner.clone());
            }
            ExecuteMsg::RevokeOwnershipTransfer {} => {
                self.m.nominee = None;
            }
            ExecuteMsg::AcceptOwnership {} => {
                self.m.admin = sender.to_string();
                self.m.nominee = None;
            }
            ExecuteMsg::UpdateConfig { monitors, protocol_fee_config, .. } => {
                if let Some(l) = monitors {
                    self.m.monitors = l.clone();
                }
                if let Some(f) = protocol_fee_config {
                    self.m.fee_rate = f.dao_treasury_fee.u128();
                    self.m.treasury = f.treasury_address.clone();
                }
            }
            ExecuteMsg::ResumeContract { total_native_token, total_liquid_stake_token, .. } => {
                self.m.halted = false;
                if *total_native_token != pre.total_native_token || *total_liquid_stake_token != pre.total_liquid_stake_token {
                    self.g.honest = false;
                }
                self.g.base_native = total_native_token.u128();
                self.g.fwd = 0;
                self.g.set_aside = 0;
                self.g.swept = 0;
            }
            ExecuteMsg::RecoverPendingIbcTransfers { .. } => {
                if let Some(sel) = recover_selected {
                    let mut distinct = sel.clone();
                    distinct.sort();
                    distinct.dedup();
                    for s in &distinct {
                        if self.m.packets.contains_key(s) {
                            *self.g.resent.entry(*s).or_insert(0) += 1;
                        }
                        // a recovered packet's record is consumed; the new packet was recorded above
                        if !out.new_packets.contains(s) {
                            self.m.packets.remove(s);
                        }
                    }
                }
            }
            _ => {}
        }
    }
}
