//! Hand-written protobuf wire reader / writer (independent of prost).

#[derive(Debug, Clone, PartialEq, Eq, Hash)]
pub enum Val {
    Varint(u64),
    Fixed64(u64),
    Len(Vec<u8>),
    Fixed32(u32),
}

pub type Fields = Vec<(u32, Val)>;

pub fn read_varint(b: &[u8], pos: &mut usize) -> Option<u64> {
    let mut out: u64 = 0;
    let mut shift = 0u32;
    loop {
        let byte = *b.get(*pos)?;
        *pos += 1;
        if shift == 63 && byte > 1 {
            return None;
        }
        out |= ((byte & 0x7f) as u64) << shift;
        if byte & 0x80 == 0 {
            return Some(out);
        }
        shift += 7;
        if shift > 63 {
            return None;
        }
    }
}

pub fn write_varint(mut v: u64, out: &mut Vec<u8>) {
    loop {
        let b = (v & 0x7f) as u8;
        v >>= 7;
        if v == 0 {
            out.push(b);
            return;
        }
        out.push(b | 0x80);
    }
}

pub fn parse(b: &[u8]) -> Option<Fields> {
    let mut pos = 0usize;
    let mut out = Vec::new();
    while pos < b.len() {
        let key = read_varint(b, &mut pos)?;
        let tag = (key >> 3) as u32;
        if tag == 0 {
            return None;
        }
        let v = match key & 7 {
            0 => Val::Varint(read_varint(b, &mut pos)?),
            1 => {
                let s = b.get(pos..pos + 8)?;
                pos += 8;
                Val::Fixed64(u64::from_le_bytes(s.try_into().ok()?))
            }
            2 => {
                let n = read_varint(b, &mut pos)? as usize;
                let s = b.get(pos..pos.checked_add(n)?)?;
                pos += n;
                Val::Len(s.to_vec())
            }
            5 => {
                let s = b.get(pos..pos + 4)?;
                pos += 4;
                Val::Fixed32(u32::from_le_bytes(s.try_into().ok()?))
            }
            _ => return None,
        };
        out.push((tag, v));
    }
    Some(out)
}

pub fn write(fields: &Fields) -> Vec<u8> {
    let mut out = Vec::new();
    for (tag, v) in fields {
        let wt = match v {
            Val::Varint(_) => 0,
            Val::Fixed64(_) => 1,
            Val::Len(_) => 2,
            Val::Fixed32(_) => 5,
        };
        write_varint(((*tag as u64) << 3) | wt, &mut out);
        match v {
            Val::Varint(x) => write_varint(*x, &mut out),
            Val::Fixed64(x) => out.extend_from_slice(&x.to_le_bytes()),
            Val::Len(x) => {
                write_varint(x.len() as u64, &mut out);
                out.extend_from_slice(x);
            }
            Val::Fixed32(x) => out.extend_from_slice(&x.to_le_bytes()),
        }
    }
    out
}

pub fn get_str(f: &Fields, tag: u32) -> Option<String> {
    let mut r = Some(String::new()); // proto3 default
    let mut found = 0;
    for (t, v) in f {
        if *t == tag {
            found += 1;
            match v {
                Val::Len(b) => r = String::from_utf8(b.clone()).ok(),
                _ => return None,
            }
        }
    }
    if found > 1 {
        return None;
    }
    r
}

pub fn get_u64(f: &Fields, tag: u32) -> Option<u64> {
    let mut r = Some(0u64);
    let mut found = 0;
    for (t, v) in f {
        if *t == tag {
            found += 1;
            match v {
                Val::Varint(x) => r = Some(*x),
                _ => return None,
            }
        }
    }
    if found > 1 {
        return None;
    }
    r
}

pub fn get_msgs(f: &Fields, tag: u32) -> Option<Vec<Fields>> {
    let mut out = Vec::new();
    for (t, v) in f {
        if *t == tag {
            match v {
                Val::Len(b) => out.push(parse(b)?),
                _ => return None,
            }
        }
    }
    Some(out)
}

pub fn get_bytes(f: &Fields, tag: u32) -> Option<Vec<u8>> {
    let mut r = Some(Vec::new());
    for (t, v) in f {
        if *t == tag {
            match v {
                Val::Len(b) => r = Some(b.clone()),
                _ => return None,
            }
        }
    }
    r
}

/// true if every tag of `f` is in `allowed`
pub fn only_tags(f: &Fields, allowed: &[u32]) -> bool {
    f.iter().all(|(t, _)| allowed.contains(t))
}

/// tags are non-decreasing (prost emits fields in tag order) and no scalar field carries its
/// proto3 default (canonical encoders omit defaults)
pub fn is_canonical_order(f: &Fields) -> bool {
    f.windows(2).all(|w| w[0].0 <= w[1].0)
}

#[derive(Debug, Clone, PartialEq, Eq, Hash)]
pub struct PCoin {
    pub denom: String,
    pub amount: String,
}

pub fn coin(f: &Fields) -> Option<PCoin> {
    if !only_tags(f, &[1, 2]) {
        return None;
    }
    Some(PCoin { denom: get_str(f, 1)?, amount: get_str(f, 2)? })
}

pub fn enc_coin(denom: &str, amount: &str) -> Vec<u8> {
    let mut f: Fields = Vec::new();
    if !denom.is_empty() {
        f.push((1, Val::Len(denom.as_bytes().to_vec())));
    }
    if !amount.is_empty() {
        f.push((2, Val::Len(amount.as_bytes().to_vec())));
    }
    write(&f)
}

pub fn self_test() -> Result<(), String> {
    // protobuf documentation vectors: 150 -> 96 01 ; field 1 varint 150 -> 08 96 01 ; "testing" field 2 -> 12 07 ...
    let mut v = Vec::new();
    write_varint(150, &mut v);
    if v != [0x96, 0x01] {
        return Err("varint 150".into());
    }
    let f = parse(&[0x08, 0x96, 0x01]).ok_or("parse 1")?;
    if f != vec![(1, Val::Varint(150))] {
        return Err("parse field 1".into());
    }
    let f = parse(&[0x12, 0x07, 0x74, 0x65, 0x73, 0x74, 0x69, 0x6e, 0x67]).ok_or("parse 2")?;
    if get_str(&f, 2).as_deref() != Some("testing") {
        return Err("parse testing".into());
    }
    if write(&f) != [0x12, 0x07, 0x74, 0x65, 0x73, 0x74, 0x69, 0x6e, 0x67] {
        return Err("write testing".into());
    }
    let mut v = Vec::new();
    write_varint(u64::MAX, &mut v);
    let mut p = 0;
    if read_varint(&v, &mut p) != Some(u64::MAX) || v.len() != 10 {
        return Err("varint max".into());
    }
    if parse(&[0x08]).is_some() || parse(&[0x12, 0x05, 0x01]).is_some() {
        return Err("truncated accepted".into());
    }
    Ok(())
}
