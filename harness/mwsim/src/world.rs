//! Deterministic chain simulator hosting the real staking contract.
//!
//! Transaction semantics follow wasmd: funds first, entry point under catch_unwind, returned
//! messages dispatched in order, sub-messages with reply run in a nested checkpoint, any failure
//! restores the snapshot taken before the transaction.

use crate::bech;
use crate::kv::{ChainQuerier, Kv, SimApi};
use crate::wire::{self, Val};
use cosmwasm_std::{
    Addr, BankMsg, Binary, BlockInfo, Coin, ContractInfo, CosmosMsg, DepsMut, Empty, Env, MessageInfo,
    QuerierWrapper, Reply, ReplyOn, Response, SubMsg, SubMsgResponse, SubMsgResult, Timestamp, TransactionInfo,
    Uint128,
};
use serde::{de::DeserializeOwned, Deserialize, Serialize};
use staking::msg::{ExecuteMsg, InstantiateMsg, QueryMsg, SudoMsg};
use staking::types::{UnsafeNativeChainConfig, UnsafeProtocolChainConfig, UnsafeProtocolFeeConfig};
use std::collections::BTreeMap;
use std::panic::{catch_unwind, AssertUnwindSafe};

pub const PROTO_PREFIX: &str = "osmo";
/// which cargo-feature build of the staking contract (and hence which target chain) is simulated
pub const MINIWASM: bool = cfg!(feature = "miniwasm");
pub const SIM_CHANNEL: &str = "channel-0";
/// a second open channel to the native chain (what an admin moves the configuration to when the first one's
/// client expires); IBC numbers the packets of every channel from 1
pub const ALT_CHANNEL: &str = "channel-5";
/// packets of the second channel are filed under ALT_BASE + sequence in the simulator's own tables
pub const ALT_BASE: u64 = 1 << 48;
pub const T0: u64 = 1_700_000_000;
pub const TX_INDEX: u32 = 3;
/// Block headers carry nanoseconds; every simulated block is stamped one nanosecond before the next full
/// second, so that "one second before the deadline" is as late as a block can be while still being early
/// (the contract stores its deadlines in whole seconds).
pub const SUBSEC_NANOS: u64 = 999_999_999;

pub fn staked_denom() -> String {
    format!("ibc/{}", "C3E53D20BC7A4CC993B17C7971F8ECD06A433C10B6A96F4C4C3714F0624C56DA")
}

/// configuration the contract is instantiated with
#[derive(Clone, Debug, Hash, PartialEq, Eq, Serialize, Deserialize)]
pub struct K {
    pub name: String,
    pub native_prefix: String,
    pub oracle: bool,
    pub treasury: bool,
    pub fee: u128,
    pub min_stake: u128,
    pub batch_period: u64,
    pub unbonding: u64,
    pub subdenom: String,
    /// 0: monitors [mon, mon2]; 1: three monitors in descending address order; 2: ascending; 3: twelve monitors
    pub monitor_order: u8,
}

impl K {
    pub fn k0() -> K {
        K {
            name: "K0".into(),
            native_prefix: "celestia".into(),
            oracle: true,
            treasury: true,
            fee: 10_000,
            min_stake: 10,
            batch_period: 100,
            unbonding: 300,
            subdenom: "umilkTIA".into(),
            monitor_order: 0,
        }
    }
    pub fn k1() -> K {
        K { name: "K1".into(), oracle: false, treasury: false, ..K::k0() }
    }
    pub fn k2() -> K {
        K { name: "K2".into(), native_prefix: "osmo".into(), treasury: false, fee: 0, ..K::k0() }
    }
    /// oracle but no treasury (fees accrue)
    pub fn k4() -> K {
        K { name: "K4".into(), treasury: false, ..K::k0() }
    }
    /// K0 with three monitors listed in descending (1) / ascending (2) address order
    pub fn k5(order: u8) -> K {
        K { name: format!("K5-{order}"), monitor_order: order, ..K::k0() }
    }
    pub fn k3(fee: u128) -> K {
        K { name: format!("K3-{fee}"), fee, ..K::k0() }
    }
}

/// address book: deterministic bech32 addresses
pub fn p20(label: &str) -> String {
    bech::addr(PROTO_PREFIX, label, 20)
}
pub fn p32(label: &str) -> String {
    bech::addr(PROTO_PREFIX, label, 32)
}
pub fn contract_addr() -> String {
    p32("staking-contract")
}
pub fn oracle_addr() -> String {
    p32("oracle-contract")
}
pub fn n20(k: &K, label: &str) -> String {
    bech::addr(&k.native_prefix, &format!("native-{label}"), 20)
}
/// a 32-byte account of the native chain (interchain account, module or contract address)
pub fn n32(k: &K, label: &str) -> String {
    bech::addr(&k.native_prefix, &format!("native-{label}"), 32)
}
pub fn val(k: &K, label: &str) -> String {
    bech::addr(&format!("{}valoper", k.native_prefix), &format!("val-{label}"), 20)
}

#[derive(Clone, Debug, Hash, PartialEq, Eq, Serialize, Deserialize)]
pub struct Packet {
    pub seq: u64,
    pub denom: String,
    pub amount: u128,
    pub sender: String,
    pub receiver: String,
    pub timeout_ns: u64,
    pub callback: bool,
}

#[derive(Clone, Debug, Hash, PartialEq, Eq)]
pub struct Ibc {
    pub up: bool,
    pub next_seq: u64,
    pub flight: BTreeMap<u64, Packet>,
    /// fault injection for the reply path of the next transfer: 0 none, 1 reply data absent, 2 garbage bytes
    pub reply_fault: u8,
    /// next sequence on ALT_CHANNEL
    pub alt_next_seq: u64,
}

#[derive(Clone, Debug, PartialEq, Eq, Serialize)]
pub enum Ev {
    Send { from: String, to: String, denom: String, amount: u128 },
    CreateDenom { type_url: String, sender: String, subdenom: String, raw: Vec<u8> },
    Mint { type_url: String, sender: String, denom: String, amount: u128, to: String, raw: Vec<u8> },
    Burn { type_url: String, sender: String, denom: String, amount: u128, from: String, raw: Vec<u8> },
    Transfer { seq: u64, denom: String, amount: u128, sender: String, receiver: String, callback: bool, timeout_ns: u64, channel: String, memo: String },
    Oracle { contract: String, sender: String, msg: String, funds: usize },
    Reply { id: u64, ok: bool },
    ZeroSend { to: String, denom: String },
}

#[derive(Clone, Debug, Default)]
pub struct TxOut {
    pub ok: bool,
    pub err: Option<String>,
    /// panic message if any entry point unwound during this transaction
    pub panicked: Option<String>,
    pub events: Vec<Ev>,
    /// attributes of the top-level response (informational)
    pub new_packets: Vec<u64>,
    /// a dispatched message the simulator does not understand (machinery problem)
    pub unknown_msg: Option<String>,
    /// errors of dispatched (sub-)messages, kept even when a reply turned them into another error
    pub sub_errors: Vec<String>,
    /// the chain-written JSON document (ibc-hooks callback / hook memo) could not be decoded by the contract
    pub undecodable: bool,
    /// storage records read by the contract during this transaction (incl. replies)
    pub reads: u64,
}

#[derive(Clone, Debug, Hash, PartialEq, Eq)]
pub struct World {
    pub k: K,
    pub time: u64,
    pub kv: Kv,
    pub bank: BTreeMap<(String, String), u128>,
    pub factory: BTreeMap<String, (String, u128)>,
    pub ibc: Ibc,
    /// native-chain ledger, keyed by (address, protocol-chain denom name of the token)
    pub native: BTreeMap<(String, String), u128>,
    /// tokens the operator added from outside to make a delivery (long deliveries / rewards)
    pub native_minted: u128,
    pub oracle_last: Option<String>,
    pub oracle_count: u32,
    pub zero_sends: u32,
}

thread_local! {
    static LAST_PANIC: std::cell::RefCell<Option<String>> = std::cell::RefCell::new(None);
    static GUARD: std::cell::Cell<u32> = std::cell::Cell::new(0);
}

/// Panics raised while a contract entry point runs are recorded (and judged by C16); panics of the
/// machinery itself are printed.
pub fn install_quiet_panic_hook() {
    std::panic::set_hook(Box::new(|info| {
        let msg = format!("{info}");
        if GUARD.with(|g| g.get()) == 0 {
            eprintln!("MACHINERY PANIC: {msg}");
        }
        LAST_PANIC.with(|p| *p.borrow_mut() = Some(msg));
    }));
}

/// run a contract entry point under catch_unwind with the quiet hook armed
pub fn guarded<R>(f: impl FnOnce() -> R) -> std::thread::Result<R> {
    GUARD.with(|g| g.set(g.get() + 1));
    let r = catch_unwind(AssertUnwindSafe(f));
    GUARD.with(|g| g.set(g.get() - 1));
    r
}

pub fn last_panic_message() -> String {
    LAST_PANIC.with(|p| p.borrow().clone()).unwrap_or_default()
}

fn take_panic() -> String {
    LAST_PANIC.with(|p| p.borrow_mut().take()).unwrap_or_else(|| "panic".into())
}

pub fn instantiate_msg(k: &K) -> InstantiateMsg {
    InstantiateMsg {
        native_chain_config: UnsafeNativeChainConfig {
            account_address_prefix: k.native_prefix.clone(),
            validator_address_prefix: format!("{}valoper", k.native_prefix),
            token_denom: "utia".into(),
            validators: vec![val(k, "1"), val(k, "2")],
            unbonding_period: k.unbonding,
            staker_address: n20(k, "staker"),
            reward_collector_address: n20(k, "collector"),
        },
        protocol_chain_config: UnsafeProtocolChainConfig {
            account_address_prefix: PROTO_PREFIX.into(),
            ibc_token_denom: staked_denom(),
            ibc_channel_id: SIM_CHANNEL.into(),
            minimum_liquid_stake_amount: Uint128::new(k.min_stake),
            oracle_address: if k.oracle { Some(oracle_addr()) } else { None },
        },
        protocol_fee_config: UnsafeProtocolFeeConfig {
            dao_treasury_fee: Uint128::new(k.fee),
            treasury_address: if k.treasury { Some(p20("tre")) } else { None },
        },
        liquid_stake_token_denom: k.subdenom.clone(),
        batch_period: k.batch_period,
        monitors: monitors_of(k),
    }
}

pub fn monitors_of(k: &K) -> Vec<String> {
    let mut three = vec![p20("mon"), p20("mon2"), p20("mon3")];
    three.sort();
    match k.monitor_order {
        1 => {
            three.reverse();
            three
        }
        2 => three,
        // a large on-call team: twelve monitors (more than any page size or fixed scan bound)
        3 => (1..=12).map(|i| if i == 1 { p20("mon") } else { p20(&format!("mon{i}")) }).collect(),
        _ => vec![p20("mon"), p20("mon2")],
    }
}

thread_local! {
    static NO_TX: std::cell::Cell<bool> = const { std::cell::Cell::new(false) };
}
/// run `f` with `env.transaction == None` (the message is executed outside a transaction)
pub fn outside_transaction<T>(f: impl FnOnce() -> T) -> T {
    NO_TX.with(|c| c.set(true));
    let r = f();
    NO_TX.with(|c| c.set(false));
    r
}

impl World {
    pub fn env(&self) -> Env {
        Env {
            block: BlockInfo { height: 12_345, time: Timestamp::from_nanos(self.time * 1_000_000_000 + SUBSEC_NANOS), chain_id: "sim-1".into() },
            // wasmd fills `transaction` only while delivering a transaction: a message executed by the gov
            // module or by an end-blocker (a passed proposal, a cron module) sees None
            transaction: if NO_TX.with(|c| c.get()) { None } else { Some(TransactionInfo { index: TX_INDEX }) },
            contract: ContractInfo { address: Addr::unchecked(contract_addr()) },
        }
    }

    pub fn lst_denom(&self) -> String {
        format!("factory/{}/{}", contract_addr(), self.k.subdenom)
    }

    pub fn bal(&self, addr: &str, denom: &str) -> u128 {
        *self.bank.get(&(addr.to_string(), denom.to_string())).unwrap_or(&0)
    }
    pub fn nbal(&self, addr: &str, denom: &str) -> u128 {
        *self.native.get(&(addr.to_string(), denom.to_string())).unwrap_or(&0)
    }
    pub fn credit(&mut self, addr: &str, denom: &str, amt: u128) {
        *self.bank.entry((addr.to_string(), denom.to_string())).or_insert(0) += amt;
    }
    fn debit(&mut self, addr: &str, denom: &str, amt: u128) -> Result<(), String> {
        let key = (addr.to_string(), denom.to_string());
        let cur = *self.bank.get(&key).unwrap_or(&0);
        if cur < amt {
            return Err(format!("insufficient funds: {addr} has {cur}{denom}, needs {amt}"));
        }
        if cur == amt {
            self.bank.remove(&key);
        } else {
            self.bank.insert(key, cur - amt);
        }
        Ok(())
    }
    pub fn ncredit(&mut self, addr: &str, denom: &str, amt: u128) {
        if amt > 0 {
            *self.native.entry((addr.to_string(), denom.to_string())).or_insert(0) += amt;
        }
    }

    /// A fresh chain with an instantiated (halted) contract and funded users.
    pub fn new(k: &K) -> Result<World, String> {
        World::new_with(k, instantiate_msg(k))
    }

    pub fn new_with(k: &K, msg: InstantiateMsg) -> Result<World, String> {
        let mut w = World {
            k: k.clone(),
            time: T0,
            kv: Kv::default(),
            bank: BTreeMap::new(),
            factory: BTreeMap::new(),
            ibc: Ibc { up: true, next_seq: 1, flight: BTreeMap::new(), reply_fault: 0, alt_next_seq: 1 },
            native: BTreeMap::new(),
            native_minted: 0,
            oracle_last: None,
            oracle_count: 0,
            zero_sends: 0,
        };
        let out = w.instantiate(&p20("adm"), msg);
        if !out.ok {
            return Err(out.err.or(out.panicked).unwrap_or_default());
        }
        Ok(w)
    }

    pub fn fund(&mut self, who: &str, amt: u128) {
        let d = staked_denom();
        self.credit(who, &d, amt);
    }

    pub fn instantiate(&mut self, sender: &str, msg: InstantiateMsg) -> TxOut {
        let snap = self.clone();
        let mut out = TxOut::default();
        let env = self.env();
        let info = MessageInfo { sender: Addr::unchecked(sender), funds: vec![] };
        let api = SimApi { prefix: PROTO_PREFIX };
        let q = ChainQuerier { bank: &self.bank, contract: contract_addr() };
        let r = {
            let deps = DepsMut { storage: &mut self.kv, api: &api, querier: QuerierWrapper::new(&q) };
            guarded(|| staking::contract::instantiate(deps, env, info, msg).map_err(|e| e.to_string()))
        };
        let res = match r {
            Err(_) => {
                out.panicked = Some(take_panic());
                Err("panic".to_string())
            }
            Ok(Err(e)) => Err(e),
            Ok(Ok(resp)) => self.dispatch_all(resp, &mut out, 0),
        };
        self.finish(snap, res, out)
    }

    fn finish(&mut self, snap: World, res: Result<(), String>, mut out: TxOut) -> TxOut {
        match res {
            Ok(()) => {
                out.ok = true;
            }
            Err(e) => {
                *self = snap;
                out.ok = false;
                out.err = Some(e);
                out.events.clear();
                out.new_packets.clear();
            }
        }
        out
    }

    /// Execute a message given as the JSON document a client signs (decoded like the VM does).
    pub fn exec_json(&mut self, sender: &str, text: &str, funds: &[(String, u128)]) -> TxOut {
        match cosmwasm_std::from_json::<ExecuteMsg>(text.as_bytes()) {
            Ok(msg) => self.exec(sender, msg, funds),
            Err(e) => TxOut { ok: false, err: Some(format!("message does not decode: {e}")), undecodable: true, ..Default::default() },
        }
    }

    /// Execute a message of the staking contract as a transaction.
    pub fn exec(&mut self, sender: &str, msg: ExecuteMsg, funds: &[(String, u128)]) -> TxOut {
        let snap = self.clone();
        let mut out = TxOut::default();
        crate::kv::reset_reads();
        let res = self.exec_inner(sender, msg, funds, &mut out);
        out.reads = crate::kv::reads();
        self.finish(snap, res, out)
    }

    fn exec_inner(&mut self, sender: &str, msg: ExecuteMsg, funds: &[(String, u128)], out: &mut TxOut) -> Result<(), String> {
        let me = contract_addr();
        for (d, a) in funds {
            self.debit(sender, d, *a)?;
            self.credit(&me, d, *a);
        }
        let env = self.env();
        // sdk.Coins are sorted by denom when they reach a contract
        let mut sorted: Vec<&(String, u128)> = funds.iter().collect();
        sorted.sort_by(|a, b| a.0.cmp(&b.0));
        let info = MessageInfo {
            sender: Addr::unchecked(sender),
            funds: sorted.into_iter().map(|(d, a)| Coin::new(*a, d.clone())).collect(),
        };
        let api = SimApi { prefix: PROTO_PREFIX };
        let q = ChainQuerier { bank: &self.bank, contract: contract_addr() };
        let r = {
            let deps = DepsMut { storage: &mut self.kv, api: &api, querier: QuerierWrapper::new(&q) };
            guarded(|| staking::contract::execute(deps, env, info, msg).map_err(|e| e.to_string()))
        };
        match r {
            Err(_) => {
                out.panicked = Some(take_panic());
                Err("panic".to_string())
            }
            Ok(Err(e)) => Err(e),
            Ok(Ok(resp)) => self.dispatch_all(resp, out, 0),
        }
    }

    fn dispatch_all(&mut self, resp: Response<Empty>, out: &mut TxOut, depth: u32) -> Result<(), String> {
        if depth > 8 {
            return Err("dispatch depth".into());
        }
        for sm in resp.messages {
            self.dispatch_sub(sm, out, depth)?;
        }
        Ok(())
    }

    fn dispatch_sub(&mut self, sm: SubMsg<Empty>, out: &mut TxOut, depth: u32) -> Result<(), String> {
        let SubMsg { id, msg, reply_on, .. } = sm;
        match reply_on {
            ReplyOn::Never => {
                if let Err(e) = self.dispatch_msg(msg, out) {
                    out.sub_errors.push(e.clone());
                    return Err(e);
                }
                Ok(())
            }
            _ => {
                let snap = self.clone();
                let ev_len = out.events.len();
                let pk_len = out.new_packets.len();
                let r = self.dispatch_msg(msg, out);
                match r {
                    Ok(data) => {
                        if matches!(reply_on, ReplyOn::Success | ReplyOn::Always) {
                            let rep = Reply {
                                id,
                                result: SubMsgResult::Ok(SubMsgResponse { events: vec![], data: data.map(Binary::from) }),
                            };
                            self.call_reply(rep, out, depth)
                        } else {
                            Ok(())
                        }
                    }
                    Err(e) => {
                        out.sub_errors.push(e.clone());
                        if matches!(reply_on, ReplyOn::Error | ReplyOn::Always) {
                            *self = snap;
                            out.events.truncate(ev_len);
                            out.new_packets.truncate(pk_len);
                            let rep = Reply { id, result: SubMsgResult::Err(e) };
                            self.call_reply(rep, out, depth)
                        } else {
                            Err(e)
                        }
                    }
                }
            }
        }
    }

    fn call_reply(&mut self, rep: Reply, out: &mut TxOut, depth: u32) -> Result<(), String> {
        let env = self.env();
        let api = SimApi { prefix: PROTO_PREFIX };
        let q = ChainQuerier { bank: &self.bank, contract: contract_addr() };
        let id = rep.id;
        let r = {
            let deps = DepsMut { storage: &mut self.kv, api: &api, querier: QuerierWrapper::new(&q) };
            guarded(|| staking::contract::reply(deps, env, rep).map_err(|e| e.to_string()))
        };
        match r {
            Err(_) => {
                out.panicked = Some(take_panic());
                Err("panic in reply".to_string())
            }
            Ok(Err(e)) => {
                out.events.push(Ev::Reply { id, ok: false });
                Err(format!("reply failed: {e}"))
            }
            Ok(Ok(resp)) => {
                out.events.push(Ev::Reply { id, ok: true });
                self.dispatch_all(resp, out, depth + 1)
            }
        }
    }

    /// Execute one message emitted by the contract. Returns the response data (for replies).
    fn dispatch_msg(&mut self, msg: CosmosMsg<Empty>, out: &mut TxOut) -> Result<Option<Vec<u8>>, String> {
        let me = contract_addr();
        match msg {
            CosmosMsg::Bank(BankMsg::Send { to_address, amount }) => {
                for c in amount {
                    self.bank_send(&me, &to_address, &c.denom, c.amount.u128(), out)?;
                }
                Ok(None)
            }
            CosmosMsg::Stargate { type_url, value } => self.dispatch_any(&type_url, value.as_slice(), out),
            other => {
                let d = format!("unsupported message {:?}", other);
                out.unknown_msg = Some(d.clone());
                Err(d)
            }
        }
    }

    fn bank_send(&mut self, from: &str, to: &str, denom: &str, amount: u128, out: &mut TxOut) -> Result<(), String> {
        if to.is_empty() {
            return Err("empty recipient".into());
        }
        // fault 4: the bank refuses payments to the configured treasury (a blocked / module account, sends of
        // the denom disabled): one message of a multi-message response fails
        if self.ibc.reply_fault == 4 && from == contract_addr() {
            if let Some(t) = self.config().protocol_fee_config.treasury_address {
                if t.as_str() == to {
                    return Err("bank: the recipient is a blocked address".into());
                }
            }
        }
        if amount == 0 {
            // Assumption (DESIGN O1): zero-amount coins are accepted and counted.
            self.zero_sends += 1;
            out.events.push(Ev::ZeroSend { to: to.to_string(), denom: denom.to_string() });
            return Ok(());
        }
        self.debit(from, denom, amount)?;
        self.credit(to, denom, amount);
        out.events.push(Ev::Send { from: from.to_string(), to: to.to_string(), denom: denom.to_string(), amount });
        Ok(())
    }

    fn dispatch_any(&mut self, type_url: &str, value: &[u8], out: &mut TxOut) -> Result<Option<Vec<u8>>, String> {
        let me = contract_addr();
        // the target chain of this build has exactly one token-factory module
        let foreign_tf = if MINIWASM { type_url.starts_with("/osmosis.tokenfactory.") } else { type_url.starts_with("/miniwasm.tokenfactory.") };
        if foreign_tf {
            return Err(format!("no handler registered for {type_url} on this chain"));
        }
        let f = wire::parse(value).ok_or_else(|| format!("undecodable protobuf for {type_url}"))?;
        match type_url {
            "/cosmos.bank.v1beta1.MsgSend" => {
                if !wire::only_tags(&f, &[1, 2, 3]) {
                    return Err("MsgSend: unknown fields".into());
                }
                let from = wire::get_str(&f, 1).ok_or("MsgSend.from")?;
                let to = wire::get_str(&f, 2).ok_or("MsgSend.to")?;
                if from != me {
                    return Err(format!("MsgSend: signer {from} is not the contract"));
                }
                for c in wire::get_msgs(&f, 3).ok_or("MsgSend.amount")? {
                    let c = wire::coin(&c).ok_or("MsgSend coin")?;
                    let a: u128 = c.amount.parse().map_err(|_| "MsgSend amount")?;
                    self.bank_send(&from, &to, &c.denom, a, out)?;
                }
                Ok(None)
            }
            "/cosmwasm.wasm.v1.MsgExecuteContract" => {
                let sender = wire::get_str(&f, 1).ok_or("exec.sender")?;
                let contract = wire::get_str(&f, 2).ok_or("exec.contract")?;
                let msg = wire::get_bytes(&f, 3).ok_or("exec.msg")?;
                let funds = wire::get_msgs(&f, 5).ok_or("exec.funds")?;
                if sender != me {
                    return Err("MsgExecuteContract: signer is not the contract".into());
                }
                if contract != oracle_addr() {
                    return Err(format!("MsgExecuteContract: no contract at {contract}"));
                }
                let s = String::from_utf8(msg).map_err(|_| "oracle msg utf8")?;
                // the oracle contract accepts exactly {"post_rates":{denom,purchase_rate,redemption_rate}}
                let v: serde_json::Value = serde_json::from_str(&s).map_err(|_| "oracle msg json")?;
                if v.get("post_rates").is_none() {
                    return Err("oracle: unknown message".into());
                }
                // fault 3: the oracle contract is paused / broken and rejects every post
                if self.ibc.reply_fault == 3 {
                    return Err("oracle: rejected the post".into());
                }
                self.oracle_last = Some(s.clone());
                self.oracle_count += 1;
                out.events.push(Ev::Oracle { contract, sender, msg: s, funds: funds.len() });
                Ok(None)
            }
            "/osmosis.tokenfactory.v1beta1.MsgCreateDenom" | "/miniwasm.tokenfactory.v1.MsgCreateDenom" => {
                if !wire::only_tags(&f, &[1, 2]) {
                    return Err("MsgCreateDenom: unknown fields".into());
                }
                let sender = wire::get_str(&f, 1).ok_or("cd.sender")?;
                let sub = wire::get_str(&f, 2).ok_or("cd.subdenom")?;
                if sender != me {
                    return Err("MsgCreateDenom: signer is not the contract".into());
                }
                if sub.len() > 44 {
                    return Err("subdenom too long".into());
                }
                let denom = format!("factory/{sender}/{sub}");
                if self.factory.contains_key(&denom) {
                    return Err("denom exists".into());
                }
                self.factory.insert(denom, (sender.clone(), 0));
                out.events.push(Ev::CreateDenom { type_url: type_url.into(), sender, subdenom: sub, raw: value.to_vec() });
                Ok(None)
            }
            "/osmosis.tokenfactory.v1beta1.MsgMint" | "/miniwasm.tokenfactory.v1.MsgMint" => {
                if !wire::only_tags(&f, &[1, 2, 3]) {
                    return Err("MsgMint: unknown fields".into());
                }
                let sender = wire::get_str(&f, 1).ok_or("mint.sender")?;
                let coins = wire::get_msgs(&f, 2).ok_or("mint.amount")?;
                let mut to = wire::get_str(&f, 3).ok_or("mint.to")?;
                if coins.len() != 1 {
                    return Err("MsgMint: amount missing".into());
                }
                let c = wire::coin(&coins[0]).ok_or("mint coin")?;
                let a: u128 = c.amount.parse().map_err(|_| "mint amount")?;
                if sender != me {
                    return Err("MsgMint: signer is not the contract".into());
                }
                if to.is_empty() {
                    to = sender.clone();
                }
                let ent = self.factory.get_mut(&c.denom).ok_or("MsgMint: unknown denom")?;
                if ent.0 != sender {
                    return Err("MsgMint: not the denom admin".into());
                }
                if a == 0 {
                    return Err("MsgMint: zero amount".into());
                }
                ent.1 += a;
                self.credit(&to, &c.denom, a);
                out.events.push(Ev::Mint { type_url: type_url.into(), sender, denom: c.denom, amount: a, to, raw: value.to_vec() });
                Ok(None)
            }
            "/osmosis.tokenfactory.v1beta1.MsgBurn" | "/miniwasm.tokenfactory.v1.MsgBurn" => {
                let mini = type_url.starts_with("/miniwasm");
                if !wire::only_tags(&f, if mini { &[1, 2] } else { &[1, 2, 3] }) {
                    return Err("MsgBurn: unknown fields".into());
                }
                let sender = wire::get_str(&f, 1).ok_or("burn.sender")?;
                let coins = wire::get_msgs(&f, 2).ok_or("burn.amount")?;
                let mut from = if mini { String::new() } else { wire::get_str(&f, 3).ok_or("burn.from")? };
                if coins.len() != 1 {
                    return Err("MsgBurn: amount missing".into());
                }
                let c = wire::coin(&coins[0]).ok_or("burn coin")?;
                let a: u128 = c.amount.parse().map_err(|_| "burn amount")?;
                if sender != me {
                    return Err("MsgBurn: signer is not the contract".into());
                }
                if from.is_empty() {
                    from = sender.clone();
                }
                {
                    let ent = self.factory.get(&c.denom).ok_or("MsgBurn: unknown denom")?;
                    if ent.0 != sender {
                        return Err("MsgBurn: not the denom admin".into());
                    }
                }
                if a == 0 {
                    return Err("MsgBurn: zero amount".into());
                }
                self.debit(&from, &c.denom, a)?;
                self.factory.get_mut(&c.denom).unwrap().1 -= a;
                out.events.push(Ev::Burn { type_url: type_url.into(), sender, denom: c.denom, amount: a, from, raw: value.to_vec() });
                Ok(None)
            }
            "/ibc.applications.transfer.v1.MsgTransfer" => {
                if !wire::only_tags(&f, &[1, 2, 3, 4, 5, 6, 7, 8]) {
                    return Err("MsgTransfer: unknown fields".into());
                }
                let port = wire::get_str(&f, 1).ok_or("t.port")?;
                let channel = wire::get_str(&f, 2).ok_or("t.channel")?;
                let toks = wire::get_msgs(&f, 3).ok_or("t.token")?;
                let sender = wire::get_str(&f, 4).ok_or("t.sender")?;
                let receiver = wire::get_str(&f, 5).ok_or("t.receiver")?;
                let has_height = f.iter().any(|(t, _)| *t == 6);
                let timeout_ns = wire::get_u64(&f, 7).ok_or("t.timeout")?;
                let memo = wire::get_str(&f, 8).ok_or("t.memo")?;
                if !self.ibc.up {
                    return Err("ibc: channel not open / client expired".into());
                }
                if port != "transfer" || (channel != SIM_CHANNEL && channel != ALT_CHANNEL) {
                    return Err(format!("ibc: unknown port/channel {port}/{channel}"));
                }
                if sender != me {
                    return Err("MsgTransfer: signer is not the contract".into());
                }
                if receiver.is_empty() {
                    return Err("MsgTransfer: empty receiver".into());
                }
                if toks.len() != 1 {
                    return Err("MsgTransfer: token missing".into());
                }
                let c = wire::coin(&toks[0]).ok_or("t coin")?;
                let a: u128 = c.amount.parse().map_err(|_| "t amount")?;
                if a == 0 {
                    return Err("MsgTransfer: zero amount".into());
                }
                if !has_height && timeout_ns == 0 {
                    return Err("MsgTransfer: no timeout".into());
                }
                if timeout_ns != 0 && timeout_ns <= self.time * 1_000_000_000 {
                    return Err("MsgTransfer: timeout in the past".into());
                }
                self.debit(&sender, &c.denom, a)?;
                // `seq` is the simulator's handle of the packet, `cseq` the sequence the chain reports
                let (seq, cseq) = if channel == ALT_CHANNEL {
                    let c = self.ibc.alt_next_seq;
                    self.ibc.alt_next_seq += 1;
                    (ALT_BASE + c, c)
                } else {
                    let c = self.ibc.next_seq;
                    self.ibc.next_seq += 1;
                    (c, c)
                };
                let callback = match serde_json::from_str::<serde_json::Value>(&memo) {
                    Ok(v) => v.get("ibc_callback").and_then(|x| x.as_str()).map(|s| s == me).unwrap_or(false),
                    Err(_) => false,
                };
                self.ibc.flight.insert(
                    seq,
                    Packet { seq, denom: c.denom.clone(), amount: a, sender: sender.clone(), receiver: receiver.clone(), timeout_ns, callback },
                );
                out.new_packets.push(seq);
                out.events.push(Ev::Transfer { seq, denom: c.denom, amount: a, sender, receiver, callback, timeout_ns, channel, memo });
                let data = match self.ibc.reply_fault {
                    1 => None,
                    2 => Some(vec![0xff, 0xff, 0xff]),
                    _ => Some(wire::write(&vec![(1, Val::Varint(cseq))])),
                };
                Ok(data)
            }
            other => {
                let d = format!("unsupported stargate message {other}");
                out.unknown_msg = Some(d.clone());
                Err(d)
            }
        }
    }

    /// chain-invoked sudo (its own transaction)
    pub fn sudo(&mut self, msg: SudoMsg) -> TxOut {
        let snap = self.clone();
        let mut out = TxOut::default();
        let env = self.env();
        let api = SimApi { prefix: PROTO_PREFIX };
        let q = ChainQuerier { bank: &self.bank, contract: contract_addr() };
        let r = {
            let deps = DepsMut { storage: &mut self.kv, api: &api, querier: QuerierWrapper::new(&q) };
            guarded(|| staking::contract::sudo(deps, env, msg).map_err(|e| e.to_string()))
        };
        let res = match r {
            Err(_) => {
                out.panicked = Some(take_panic());
                Err("panic".to_string())
            }
            Ok(Err(e)) => Err(e),
            Ok(Ok(resp)) => self.dispatch_all(resp, &mut out, 0),
        };
        self.finish(snap, res, out)
    }

    /// Deliver the outcome of packet `seq`: success credits the receiver on the native chain,
    /// failure/timeout refunds the sender; then the callback contract's sudo is called.
    /// `kind`: 0 = ack success, 1 = ack error, 2 = timeout.
    pub fn outcome(&mut self, seq: u64, kind: u8) -> TxOut {
        let Some(p) = self.ibc.flight.remove(&seq) else {
            return TxOut { ok: false, err: Some("no such packet".into()), ..Default::default() };
        };
        if kind == 0 {
            self.ncredit(&p.receiver, &p.denom, p.amount);
        } else {
            self.credit(&p.sender, &p.denom, p.amount);
        }
        if !p.callback {
            return TxOut { ok: true, ..Default::default() };
        }
        // The callback is delivered as the JSON document the ibc-hooks module writes (osmosis
        // x/ibc-hooks/wasm_hook.go: `{"ibc_lifecycle_complete": {"ibc_ack": {"channel": "%s", "sequence": %d,
        // "ack": %s, "success": %s}}}` and `{"ibc_lifecycle_complete": {"ibc_timeout": {"channel": "%s",
        // "sequence": %d}}}`) and decoded the way the VM decodes it, so that the spelling of the sudo
        // interface is part of what is checked. A document the contract cannot decode fails the sudo call;
        // the ICS-20 refund has happened regardless.
        let (chan, cseq) = if seq >= ALT_BASE { (ALT_CHANNEL, seq - ALT_BASE) } else { (SIM_CHANNEL, seq) };
        let doc = match kind {
            0 => serde_json::json!({"ibc_lifecycle_complete": {"ibc_ack": {"channel": chan, "sequence": cseq, "ack": "{\"result\":\"AQ==\"}", "success": true}}}),
            1 => serde_json::json!({"ibc_lifecycle_complete": {"ibc_ack": {"channel": chan, "sequence": cseq, "ack": "{\"error\":\"ABCI code: 1\"}", "success": false}}}),
            _ => serde_json::json!({"ibc_lifecycle_complete": {"ibc_timeout": {"channel": chan, "sequence": cseq}}}),
        };
        let msg: SudoMsg = match cosmwasm_std::from_json(serde_json::to_vec(&doc).unwrap()) {
            Ok(m) => m,
            Err(e) => {
                return TxOut { ok: false, err: Some(format!("ibc-hooks callback document does not decode as SudoMsg: {e}")), undecodable: true, ..Default::default() };
            }
        };
        self.sudo(msg)
    }

    /// An ICS-20 transfer from the native chain carrying a wasm-hook memo: the voucher is credited
    /// to the ibc-hooks intermediate account (derived here, independently of the contract) and the
    /// contract is executed from that account with the funds. A failing execution reverts all.
    /// `mint` > 0: that many tokens are created on the native chain for the sender first
    /// (staking rewards, or an operator topping up a delivery from outside).
    pub fn hook_deliver(&mut self, native_sender: &str, denom: &str, amount: u128, msg: ExecuteMsg, mint: u128) -> TxOut {
        let snap = self.clone();
        let mut out = TxOut::default();
        let res = (|| -> Result<(), String> {
            if amount == 0 {
                return Err("ics20: zero amount".into());
            }
            if mint > 0 {
                self.ncredit(native_sender, denom, mint);
                self.native_minted += mint;
            }
            let key = (native_sender.to_string(), denom.to_string());
            let cur = *self.native.get(&key).unwrap_or(&0);
            if cur < amount {
                return Err("native sender lacks funds".into());
            }
            if cur == amount {
                self.native.remove(&key);
            } else {
                self.native.insert(key, cur - amount);
            }
            let hook = bech::hook_sender(SIM_CHANNEL, native_sender, PROTO_PREFIX);
            self.credit(&hook, denom, amount);
            // the memo carries the message as JSON text written by the native-chain operator; the two
            // operator messages are spelled out here, anything else goes through the message's own encoder
            let text = match &msg {
                ExecuteMsg::ReceiveRewards {} => "{\"receive_rewards\":{}}".to_string(),
                ExecuteMsg::ReceiveUnstakedTokens { batch_id } => format!("{{\"receive_unstaked_tokens\":{{\"batch_id\":{batch_id}}}}}"),
                other => String::from_utf8(cosmwasm_std::to_json_vec(other).map_err(|e| e.to_string())?).map_err(|e| e.to_string())?,
            };
            let msg: ExecuteMsg = match cosmwasm_std::from_json(text.as_bytes()) {
                Ok(m) => m,
                Err(e) => {
                    out.undecodable = true;
                    return Err(format!("wasm-hook memo message does not decode as ExecuteMsg: {e}"));
                }
            };
            self.exec_inner(&hook, msg, &[(denom.to_string(), amount)], &mut out)
        })();
        self.finish(snap, res, out)
    }

    /// call `reply` directly as its own transaction (hostile probe; the chain never does this)
    pub fn raw_reply(&mut self, rep: Reply) -> TxOut {
        let snap = self.clone();
        let mut out = TxOut::default();
        let res = self.call_reply(rep, &mut out, 0);
        self.finish(snap, res, out)
    }

    /// call `migrate` as a transaction
    pub fn migrate(&mut self, msg: staking::msg::MigrateMsg) -> TxOut {
        let snap = self.clone();
        let mut out = TxOut::default();
        let env = self.env();
        let api = SimApi { prefix: PROTO_PREFIX };
        let q = ChainQuerier { bank: &self.bank, contract: contract_addr() };
        let r = {
            let deps = DepsMut { storage: &mut self.kv, api: &api, querier: QuerierWrapper::new(&q) };
            guarded(|| staking::contract::migrate(deps, env, msg).map_err(|e| e.to_string()))
        };
        let res = match r {
            Err(_) => {
                out.panicked = Some(take_panic());
                Err("panic".to_string())
            }
            Ok(Err(e)) => Err(e),
            Ok(Ok(resp)) => self.dispatch_all(resp, &mut out, 0),
        };
        self.finish(snap, res, out)
    }

    /// raw query result (binary) or error; panics are reported as Err("PANIC: ..")
    pub fn query_raw(&self, msg: QueryMsg) -> Result<Vec<u8>, String> {
        crate::kv::reset_reads();
        let env = self.env();
        let api = SimApi { prefix: PROTO_PREFIX };
        let q = ChainQuerier { bank: &self.bank, contract: contract_addr() };
        let deps = cosmwasm_std::Deps { storage: &self.kv, api: &api, querier: QuerierWrapper::new(&q) };
        let r = guarded(|| staking::contract::query(deps, env, msg).map_err(|e| e.to_string()));
        match r {
            Err(_) => Err(format!("PANIC: {}", take_panic())),
            Ok(Err(e)) => Err(e),
            Ok(Ok(b)) => Ok(b.to_vec()),
        }
    }

    pub fn query<T: DeserializeOwned>(&self, msg: QueryMsg) -> Result<T, String> {
        crate::kv::reset_reads();
        let env = self.env();
        let api = SimApi { prefix: PROTO_PREFIX };
        let q = ChainQuerier { bank: &self.bank, contract: contract_addr() };
        let deps = cosmwasm_std::Deps { storage: &self.kv, api: &api, querier: QuerierWrapper::new(&q) };
        let r = guarded(|| staking::contract::query(deps, env, msg).map_err(|e| e.to_string()));
        match r {
            Err(_) => Err(format!("PANIC: {}", take_panic())),
            Ok(Err(e)) => Err(e),
            Ok(Ok(b)) => serde_json::from_slice(b.as_slice()).map_err(|e| format!("query decode: {e}")),
        }
    }

    pub fn admin(&self) -> Option<String> {
        let api = SimApi { prefix: PROTO_PREFIX };
        let q = ChainQuerier { bank: &self.bank, contract: contract_addr() };
        let deps: cosmwasm_std::Deps<Empty> = cosmwasm_std::Deps { storage: &self.kv, api: &api, querier: QuerierWrapper::new(&q) };
        staking::state::ADMIN.get(deps).ok().flatten().map(|a| a.to_string())
    }
    /// the State query; if the query itself fails (or panics) the totals are read from the stored
    /// item so that the harness keeps running, and the failure is reported by `state_checked`
    pub fn state(&self) -> staking::msg::StateResponse {
        match self.state_checked() {
            Ok(s) => s,
            Err(_) => {
                let st = staking::state::STATE.load(&self.kv).expect("STATE item");
                staking::msg::StateResponse {
                    total_native_token: st.total_native_token,
                    total_liquid_stake_token: st.total_liquid_stake_token,
                    rate: cosmwasm_std::Decimal::zero(),
                    pending_owner: st.pending_owner.map(|a| a.to_string()).unwrap_or_default(),
                    total_reward_amount: st.total_reward_amount,
                    total_fees: st.total_fees,
                }
            }
        }
    }
    pub fn state_checked(&self) -> Result<staking::msg::StateResponse, String> {
        self.query(QueryMsg::State {})
    }
    pub fn config(&self) -> staking::msg::ConfigResponse {
        self.query(QueryMsg::Config {}).expect("Config query")
    }
    pub fn batches(&self) -> Vec<staking::msg::BatchResponse> {
        let r: staking::msg::BatchesResponse =
            self.query(QueryMsg::Batches { start_after: None, limit: None, status: None }).expect("Batches query");
        r.batches
    }
    pub fn pending_batch(&self) -> staking::msg::BatchResponse {
        self.query(QueryMsg::PendingBatch {}).expect("PendingBatch query")
    }
    pub fn ibc_queue(&self) -> Vec<staking::state::ibc::IBCTransfer> {
        let r: staking::msg::IBCQueueResponse =
            self.query(QueryMsg::IbcQueue { start_after: None, limit: None }).expect("IbcQueue query");
        r.ibc_queue
    }
    pub fn reply_queue(&self) -> Vec<staking::state::IbcWaitingForReply> {
        let r: staking::msg::IBCReplyQueueResponse =
            self.query(QueryMsg::IbcReplyQueue { start_after: None, limit: None }).expect("IbcReplyQueue query");
        r.ibc_queue
    }
    pub fn requests_of(&self, user: &str) -> Vec<staking::state::UnstakeRequest> {
        self.query(QueryMsg::UnstakeRequests { user: Addr::unchecked(user) }).expect("UnstakeRequests query")
    }

    /// Simulator self-check: token conservation (machinery error if violated, never a verdict).
    pub fn self_check(&self, endowment: u128) -> Result<(), String> {
        let sd = staked_denom();
        let bank: u128 = self.bank.iter().filter(|((_, d), _)| *d == sd).map(|(_, v)| *v).sum();
        let nat: u128 = self.native.iter().filter(|((_, d), _)| *d == sd).map(|(_, v)| *v).sum();
        let fl: u128 = self.ibc.flight.values().filter(|p| p.denom == sd).map(|p| p.amount).sum();
        if bank + nat + fl != endowment + self.native_minted {
            return Err(format!("staked-asset conservation: bank {bank} + native {nat} + flight {fl} != {endowment} + minted {}", self.native_minted));
        }
        for (denom, (_, supply)) in &self.factory {
            let b: u128 = self.bank.iter().filter(|((_, d), _)| d == denom).map(|(_, v)| *v).sum();
            let n: u128 = self.native.iter().filter(|((_, d), _)| d == denom).map(|(_, v)| *v).sum();
            let f: u128 = self.ibc.flight.values().filter(|p| &p.denom == denom).map(|p| p.amount).sum();
            if b + n + f != *supply {
                return Err(format!("factory conservation for {denom}: {b}+{n}+{f} != {supply}"));
            }
        }
        Ok(())
    }
}
