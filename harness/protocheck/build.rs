//! Extracts the protobuf schema of packages/initia-proto (and of the reference bindings in
//! osmosis-std) from the generated Rust sources with `syn`, and generates one monomorphic
//! decode/encode shim per message type.

use serde::Serialize;
use std::collections::BTreeMap;
use std::path::{Path, PathBuf};

#[derive(Serialize, Clone, Debug, Default)]
struct Field {
    name: String,
    /// scalar kind ("string", "uint64", "bytes", "bool", "message", "enumeration", "oneof", "map", ...)
    kind: String,
    /// "single" | "optional" | "repeated"
    label: String,
    tag: u32,
    /// tags of a oneof
    tags: Vec<u32>,
    /// referenced type (message / enumeration / oneof), as written and resolved to an absolute rust path
    ty: String,
    ty_abs: String,
    map_key: String,
    map_val: String,
    packed_false: bool,
}

#[derive(Serialize, Clone, Debug, Default)]
struct Msg {
    /// absolute rust path inside the crate, e.g. "cosmos::bank::v1beta1::MsgSend"
    path: String,
    /// fully-qualified protobuf name, e.g. "cosmos.bank.v1beta1.MsgSend"
    full_name: String,
    file: String,
    included: bool,
    fields: Vec<Field>,
    /// declared type url (reference crates only)
    type_url: String,
    /// first word of the struct's doc comment (protoc copies the .proto comment, which by Cosmos
    /// convention starts with the message's protobuf name)
    doc_name: String,
}

#[derive(Serialize, Clone, Debug, Default)]
struct EnumDef {
    path: String,
    variants: Vec<(String, i64)>,
}

#[derive(Serialize, Clone, Debug, Default)]
struct Oneof {
    path: String,
    arms: Vec<Field>,
}

#[derive(Serialize, Default)]
struct Schema {
    messages: Vec<Msg>,
    enums: Vec<EnumDef>,
    oneofs: Vec<Oneof>,
    /// (include file, module path it is mounted at)
    includes: Vec<(String, String)>,
    dead_files: Vec<String>,
    /// (rust path of the type, declared TYPE_URL)
    type_urls: Vec<(String, String)>,
    /// gRPC method paths found in the generated clients / servers: (package, service, method)
    rpc_methods: Vec<(String, String, String)>,
}

fn lit_str(e: &syn::Expr) -> Option<String> {
    if let syn::Expr::Lit(l) = e {
        if let syn::Lit::Str(s) = &l.lit {
            return Some(s.value());
        }
    }
    None
}

fn derives(attrs: &[syn::Attribute], what: &str) -> bool {
    attrs.iter().any(|a| a.path().is_ident("derive") && quote::quote!(#a).to_string().replace(' ', "").contains(what))
}

fn has_cfg(attrs: &[syn::Attribute]) -> bool {
    attrs.iter().any(|a| a.path().is_ident("cfg"))
}

fn clean_ident(i: &syn::Ident) -> String {
    i.to_string().trim_start_matches("r#").to_string()
}

/// parse `#[prost(...)]` into a Field (name filled by the caller)
fn parse_prost(attrs: &[syn::Attribute]) -> Option<Field> {
    let a = attrs.iter().find(|a| a.path().is_ident("prost"))?;
    let mut f = Field { label: "single".into(), ..Default::default() };
    let metas = a.parse_args_with(syn::punctuated::Punctuated::<syn::Meta, syn::Token![,]>::parse_terminated).ok()?;
    for m in metas {
        match m {
            syn::Meta::Path(p) => {
                let id = p.get_ident().map(|i| i.to_string()).unwrap_or_default();
                match id.as_str() {
                    "optional" | "repeated" | "required" => f.label = id,
                    other => f.kind = other.to_string(),
                }
            }
            syn::Meta::NameValue(nv) => {
                let id = nv.path.get_ident().map(|i| i.to_string()).unwrap_or_default();
                let v = lit_str(&nv.value).unwrap_or_default();
                match id.as_str() {
                    "tag" => f.tag = v.parse().unwrap_or(0),
                    "tags" => f.tags = v.split(',').filter_map(|x| x.trim().parse().ok()).collect(),
                    "enumeration" => {
                        f.kind = "enumeration".into();
                        f.ty = v;
                    }
                    "oneof" => {
                        f.kind = "oneof".into();
                        f.ty = v;
                    }
                    "bytes" => f.kind = "bytes".into(),
                    "map" | "btree_map" | "hash_map" => {
                        f.kind = "map".into();
                        let mut it = v.splitn(2, ',');
                        f.map_key = it.next().unwrap_or("").trim().to_string();
                        f.map_val = it.next().unwrap_or("").trim().to_string();
                    }
                    "packed" => f.packed_false = v == "false",
                    _ => {}
                }
            }
            _ => {}
        }
    }
    Some(f)
}

/// innermost type path of a field type: Option<T>, Vec<T>, Box<T> peeled
fn inner_type(t: &syn::Type) -> String {
    if let syn::Type::Path(p) = t {
        let last = p.path.segments.last().unwrap();
        let id = last.ident.to_string();
        if ["Option", "Vec", "Box"].contains(&id.as_str()) {
            if let syn::PathArguments::AngleBracketed(a) = &last.arguments {
                if let Some(syn::GenericArgument::Type(t2)) = a.args.first() {
                    return inner_type(t2);
                }
            }
        }
        let lead = if p.path.leading_colon.is_some() { "::" } else { "" };
        return format!("{lead}{}", p.path.segments.iter().map(|s| clean_ident(&s.ident)).collect::<Vec<_>>().join("::"));
    }
    String::new()
}

/// resolve a path written inside module `modpath` to an absolute path inside the crate
fn resolve(modpath: &[String], written: &str) -> String {
    if written.starts_with("::") {
        return written.to_string(); // external crate (prost_types, prost::alloc, …)
    }
    let mut cur: Vec<String> = modpath.to_vec();
    let mut segs: Vec<&str> = written.split("::").collect();
    if segs.first() == Some(&"crate") {
        cur.clear();
        segs.remove(0);
    }
    while segs.first() == Some(&"super") {
        cur.pop();
        segs.remove(0);
    }
    if segs.first() == Some(&"self") {
        segs.remove(0);
    }
    cur.extend(segs.iter().map(|s| s.to_string()));
    cur.join("::")
}

struct Ctx<'a> {
    schema: &'a mut Schema,
    file: String,
    included: bool,
    package: String,
}

fn snake_to_camel_candidates(_m: &str) -> Vec<String> {
    vec![]
}

fn walk_items(ctx: &mut Ctx, items: &[syn::Item], modpath: &[String], proto_scope: &[String]) {
    // proto_scope: message names enclosing the current module (prost puts nested types in `pub mod parent_snake`)
    let _ = snake_to_camel_candidates;
    for it in items {
        match it {
            syn::Item::Struct(s) if derives(&s.attrs, "Message") => {
                let name = s.ident.to_string();
                let mut fields = vec![];
                if let syn::Fields::Named(n) = &s.fields {
                    for f in &n.named {
                        if let Some(mut pf) = parse_prost(&f.attrs) {
                            pf.name = clean_ident(f.ident.as_ref().unwrap());
                            if pf.kind == "message" {
                                pf.ty = inner_type(&f.ty);
                            }
                            if !pf.ty.is_empty() {
                                pf.ty_abs = resolve(modpath, &pf.ty);
                            }
                            fields.push(pf);
                        }
                    }
                }
                let mut full = ctx.package.clone();
                for p in proto_scope {
                    full.push('.');
                    full.push_str(p);
                }
                full.push('.');
                full.push_str(&name);
                let type_url = s
                    .attrs
                    .iter()
                    .find(|a| a.path().is_ident("proto_message"))
                    .and_then(|a| a.parse_args::<syn::MetaNameValue>().ok())
                    .and_then(|nv| lit_str(&nv.value))
                    .unwrap_or_default();
                let mut path = modpath.to_vec();
                path.push(name);
                let doc_name = s
                    .attrs
                    .iter()
                    .filter(|a| a.path().is_ident("doc"))
                    .filter_map(|a| if let syn::Meta::NameValue(nv) = &a.meta { lit_str(&nv.value) } else { None })
                    .find(|t| !t.trim().is_empty())
                    .map(|t| t.split_whitespace().next().unwrap_or("").trim_matches(|c: char| !c.is_ascii_alphanumeric() && c != '_').to_string())
                    .unwrap_or_default();
                ctx.schema.messages.push(Msg { path: path.join("::"), full_name: full, file: ctx.file.clone(), included: ctx.included, fields, type_url, doc_name });
            }
            syn::Item::Enum(e) if derives(&e.attrs, "Enumeration") => {
                let mut path = modpath.to_vec();
                path.push(e.ident.to_string());
                let mut variants = vec![];
                for v in &e.variants {
                    let val = v.discriminant.as_ref().and_then(|(_, x)| match x {
                        syn::Expr::Lit(l) => match &l.lit {
                            syn::Lit::Int(i) => i.base10_parse::<i64>().ok(),
                            _ => None,
                        },
                        syn::Expr::Unary(u) => {
                            if let syn::Expr::Lit(l) = &*u.expr {
                                if let syn::Lit::Int(i) = &l.lit {
                                    return i.base10_parse::<i64>().ok().map(|x| -x);
                                }
                            }
                            None
                        }
                        _ => None,
                    });
                    variants.push((v.ident.to_string(), val.unwrap_or(0)));
                }
                ctx.schema.enums.push(EnumDef { path: path.join("::"), variants });
            }
            syn::Item::Enum(e) if derives(&e.attrs, "Oneof") => {
                let mut path = modpath.to_vec();
                path.push(e.ident.to_string());
                let mut arms = vec![];
                for v in &e.variants {
                    if let Some(mut pf) = parse_prost(&v.attrs) {
                        pf.name = v.ident.to_string();
                        if pf.kind == "message" {
                            if let syn::Fields::Unnamed(u) = &v.fields {
                                if let Some(f0) = u.unnamed.first() {
                                    pf.ty = inner_type(&f0.ty);
                                }
                            }
                        }
                        if !pf.ty.is_empty() {
                            pf.ty_abs = resolve(modpath, &pf.ty);
                        }
                        arms.push(pf);
                    }
                }
                ctx.schema.oneofs.push(Oneof { path: path.join("::"), arms });
            }
            syn::Item::Mod(m) => {
                if has_cfg(&m.attrs) {
                    continue; // grpc client / server modules
                }
                if let Some((_, items)) = &m.content {
                    let name = clean_ident(&m.ident);
                    let mut mp = modpath.to_vec();
                    mp.push(name.clone());
                    // nested-type module: its name is the snake_case of an enclosing message
                    let mut scope = proto_scope.to_vec();
                    let camel: String = name.split('_').map(|p| { let mut c = p.chars(); match c.next() { Some(f) => f.to_uppercase().collect::<String>() + c.as_str(), None => String::new() } }).collect();
                    scope.push(camel);
                    walk_items(ctx, items, &mp, &scope);
                }
            }
            _ => {}
        }
    }
}

/// walk lib.rs: find include!("proto/X.rs") and the module path they are mounted at
fn walk_lib(items: &[syn::Item], modpath: &[String], out: &mut Vec<(String, Vec<String>)>) {
    for it in items {
        match it {
            syn::Item::Mod(m) => {
                if let Some((_, items)) = &m.content {
                    let mut mp = modpath.to_vec();
                    mp.push(clean_ident(&m.ident));
                    walk_lib(items, &mp, out);
                }
            }
            syn::Item::Macro(mac) if mac.mac.path.is_ident("include") => {
                if let Ok(s) = mac.mac.parse_body::<syn::LitStr>() {
                    out.push((s.value(), modpath.to_vec()));
                }
            }
            _ => {}
        }
    }
}

fn find_registry_crate(name: &str) -> Option<PathBuf> {
    let home = std::env::var("CARGO_HOME").unwrap_or_else(|_| format!("{}/.cargo", std::env::var("HOME").unwrap_or_default()));
    let src = Path::new(&home).join("registry/src");
    for reg in std::fs::read_dir(src).ok()? {
        let p = reg.ok()?.path().join(name);
        if p.is_dir() {
            return Some(p);
        }
    }
    None
}

fn walk_dir_rs(dir: &Path, rel: &mut Vec<String>, out: &mut Vec<(PathBuf, Vec<String>)>) {
    let Ok(rd) = std::fs::read_dir(dir) else { return };
    let mut entries: Vec<_> = rd.filter_map(|e| e.ok()).collect();
    entries.sort_by_key(|e| e.path());
    for e in entries {
        let p = e.path();
        let stem = p.file_stem().unwrap().to_string_lossy().to_string();
        if p.is_dir() {
            rel.push(stem);
            walk_dir_rs(&p, rel, out);
            rel.pop();
        } else if p.extension().map(|x| x == "rs").unwrap_or(false) {
            let mut m = rel.clone();
            if stem != "mod" {
                m.push(stem);
            }
            out.push((p, m));
        }
    }
}

fn main() {
    let repo = PathBuf::from("/repo/packages/initia-proto/src");
    println!("cargo:rerun-if-changed=/repo/packages/initia-proto/src");
    println!("cargo:rerun-if-changed=build.rs");
    let out_dir = PathBuf::from(std::env::var("OUT_DIR").unwrap());

    // ---------------- subject schema
    let mut schema = Schema::default();
    let lib = syn::parse_file(&std::fs::read_to_string(repo.join("lib.rs")).unwrap()).expect("parse lib.rs");
    let mut includes = vec![];
    walk_lib(&lib.items, &[], &mut includes);
    let mut mounted: BTreeMap<String, Vec<String>> = BTreeMap::new();
    for (f, mp) in &includes {
        let file = f.trim_start_matches("proto/").to_string();
        schema.includes.push((file.clone(), mp.join("::")));
        mounted.insert(file, mp.clone());
    }
    let mut files: Vec<PathBuf> = std::fs::read_dir(repo.join("proto")).unwrap().filter_map(|e| e.ok()).map(|e| e.path()).filter(|p| p.extension().map(|x| x == "rs").unwrap_or(false)).collect();
    files.sort();
    for p in files {
        let file = p.file_name().unwrap().to_string_lossy().to_string();
        let package = file.trim_end_matches(".rs").to_string();
        let (included, modpath) = match mounted.get(&file) {
            Some(mp) => (true, mp.clone()),
            None => {
                schema.dead_files.push(file.clone());
                (false, package.split('.').map(|s| s.to_string()).collect())
            }
        };
        let src = std::fs::read_to_string(&p).unwrap();
        let ast = syn::parse_file(&src).unwrap_or_else(|e| panic!("parse {file}: {e}"));
        // gRPC paths "/<package>.<Service>/<Method>" written by the tonic generator
        let mut rest = src.as_str();
        while let Some(i) = rest.find("\"/") {
            let tail = &rest[i + 2..];
            if let Some(j) = tail.find('"') {
                let lit = &tail[..j];
                if let Some((svc, method)) = lit.split_once('/') {
                    if let Some((pkg, service)) = svc.rsplit_once('.') {
                        let okc = |s: &str| !s.is_empty() && s.chars().all(|c| c.is_ascii_alphanumeric() || c == '_' || c == '.');
                        if okc(pkg) && okc(service) && okc(method) && !method.contains('.') {
                            let t = (pkg.to_string(), service.to_string(), method.to_string());
                            if !schema.rpc_methods.contains(&t) {
                                schema.rpc_methods.push(t);
                            }
                        }
                    }
                }
                rest = &tail[j + 1..];
            } else {
                break;
            }
        }
        let mut ctx = Ctx { schema: &mut schema, file: file.clone(), included, package };
        walk_items(&mut ctx, &ast.items, &modpath, &[]);
    }
    // type urls
    let tu = syn::parse_file(&std::fs::read_to_string(repo.join("type_urls.rs")).unwrap()).expect("parse type_urls.rs");
    for it in &tu.items {
        if let syn::Item::Impl(im) = it {
            if let syn::Type::Path(tp) = &*im.self_ty {
                let path = tp.path.segments.iter().map(|s| clean_ident(&s.ident)).collect::<Vec<_>>().join("::");
                for ii in &im.items {
                    if let syn::ImplItem::Const(c) = ii {
                        if c.ident == "TYPE_URL" {
                            if let Some(v) = lit_str(&c.expr) {
                                schema.type_urls.push((path.clone(), v));
                            }
                        }
                    }
                }
            }
        }
    }
    std::fs::write(out_dir.join("schema.json"), serde_json::to_string(&schema).unwrap()).unwrap();

    // ---------------- reference schema (osmosis-std)
    let mut refs = Schema::default();
    if let Some(root) = find_registry_crate("osmosis-std-0.25.0") {
        let mut list = vec![];
        walk_dir_rs(&root.join("src/types"), &mut vec![], &mut list);
        for (p, modpath) in list {
            let src = std::fs::read_to_string(&p).unwrap();
            let Ok(ast) = syn::parse_file(&src) else { continue };
            let package = modpath.join(".");
            let mut ctx = Ctx { schema: &mut refs, file: p.strip_prefix(&root).unwrap().to_string_lossy().to_string(), included: true, package };
            walk_items(&mut ctx, &ast.items, &modpath, &[]);
        }
    }
    // the declared type url is authoritative for the full name of a reference message
    for m in refs.messages.iter_mut() {
        if !m.type_url.is_empty() {
            m.full_name = m.type_url.trim_start_matches('/').to_string();
        }
    }
    std::fs::write(out_dir.join("refs.json"), serde_json::to_string(&refs).unwrap()).unwrap();

    // ---------------- shims
    let mut code = String::new();
    code.push_str("// @generated by build.rs\n");
    let inc: Vec<&Msg> = schema.messages.iter().filter(|m| m.included).collect();
    code.push_str(&format!("pub const SUBJECT_PATHS: [&str; {}] = [\n", inc.len()));
    for m in &inc {
        code.push_str(&format!("    \"{}\",\n", m.path));
    }
    code.push_str("];\n");
    let rust_path = |p: &str| -> String { p.split("::").map(|s| if s == "move" { "r#move".to_string() } else { s.to_string() }).collect::<Vec<_>>().join("::") };
    code.push_str("pub fn subject_roundtrip(i: usize, b: &[u8]) -> Result<crate::Rt, String> {\n    match i {\n");
    for (i, m) in inc.iter().enumerate() {
        code.push_str(&format!("        {i} => crate::rt::<initia_proto::{}>(b),\n", rust_path(&m.path)));
    }
    code.push_str("        _ => Err(\"no such type\".into()),\n    }\n}\n");
    // reference types whose full name also exists in the subject
    let names: std::collections::BTreeSet<&str> = inc.iter().map(|m| m.full_name.as_str()).collect();
    let rinc: Vec<&Msg> = refs.messages.iter().filter(|m| names.contains(m.full_name.as_str())).collect();
    code.push_str(&format!("pub const REF_PATHS: [(&str, &str); {}] = [\n", rinc.len()));
    for m in &rinc {
        code.push_str(&format!("    (\"{}\", \"{}\"),\n", m.full_name, m.path));
    }
    code.push_str("];\n");
    code.push_str("pub fn ref_roundtrip(i: usize, b: &[u8]) -> Result<crate::Rt, String> {\n    match i {\n");
    for (i, m) in rinc.iter().enumerate() {
        code.push_str(&format!("        {i} => crate::rt::<osmosis_std::types::{}>(b),\n", rust_path(&m.path)));
    }
    code.push_str("        _ => Err(\"no such type\".into()),\n    }\n}\n");
    // registered type urls
    code.push_str(&format!("pub const TYPE_URL_PATHS: [(&str, &str); {}] = [\n", schema.type_urls.len()));
    for (p, u) in &schema.type_urls {
        code.push_str(&format!("    (\"{p}\", \"{u}\"),\n"));
    }
    code.push_str("];\n");
    // which message types implement TypeUrl at all — whether the impl is written out in type_urls.rs or
    // produced by a macro there. An inherent method on Probe<T: TypeUrl> shadows the blanket trait method.
    code.push_str("pub struct Probe<T>(pub core::marker::PhantomData<T>);\npub trait NoUrl { fn url(&self) -> Option<&'static str> { None } }\nimpl<T> NoUrl for Probe<T> {}\nimpl<T: initia_proto::traits::TypeUrl> Probe<T> { pub fn url(&self) -> Option<&'static str> { Some(T::TYPE_URL) } }\n");
    code.push_str("#[allow(unused_imports)]\npub fn registered_urls() -> Vec<(&'static str, Option<&'static str>)> {\n    let mut v: Vec<(&'static str, Option<&'static str>)> = Vec::new();\n");
    for m in &inc {
        code.push_str(&format!("    v.push((\"{}\", Probe::<initia_proto::{}>(core::marker::PhantomData).url()));\n", m.path, rust_path(&m.path)));
    }
    code.push_str("    v\n}\n");
    code.push_str("pub fn any_check(i: usize, sample: &[u8], all_urls: &[&str]) -> Result<String, String> {\n    match i {\n");
    for (i, (p, _)) in schema.type_urls.iter().enumerate() {
        code.push_str(&format!("        {i} => crate::any_rt::<initia_proto::{}>(sample, all_urls),\n", rust_path(p)));
    }
    code.push_str("        _ => Err(\"no such type\".into()),\n    }\n}\n");
    std::fs::write(out_dir.join("shims.rs"), code).unwrap();
}
