//! C20 — protobuf bindings are wire-compatible and type URLs are canonical.
//! Exhaustive per-type / per-field / per-value enumeration against a hand-written wire codec,
//! a pinned schema baseline, and the independently generated bindings of osmosis-std.

use initia_proto::traits::{MessageExt, TypeUrl};
use mwsim::wire::{self, Fields, Val};
use prost::Message;
use serde::Deserialize;
use serde_json::{json, Value};
use std::collections::{BTreeMap, BTreeSet};
use std::time::Instant;

mod shims {
    include!(concat!(env!("OUT_DIR"), "/shims.rs"));
}

const SCHEMA_JSON: &str = include_str!(concat!(env!("OUT_DIR"), "/schema.json"));
const REFS_JSON: &str = include_str!(concat!(env!("OUT_DIR"), "/refs.json"));

#[derive(Deserialize, Clone, Debug, PartialEq)]
struct Field {
    name: String,
    kind: String,
    label: String,
    tag: u32,
    tags: Vec<u32>,
    ty: String,
    ty_abs: String,
    map_key: String,
    map_val: String,
    packed_false: bool,
}

#[derive(Deserialize, Clone, Debug)]
struct Msg {
    path: String,
    full_name: String,
    file: String,
    included: bool,
    fields: Vec<Field>,
    #[allow(dead_code)]
    type_url: String,
    #[serde(default)]
    doc_name: String,
}

#[derive(Deserialize, Clone, Debug)]
struct EnumDef {
    path: String,
    variants: Vec<(String, i64)>,
}

#[derive(Deserialize, Clone, Debug)]
struct Oneof {
    path: String,
    arms: Vec<Field>,
}

#[derive(Deserialize, Clone, Debug)]
struct Schema {
    messages: Vec<Msg>,
    enums: Vec<EnumDef>,
    oneofs: Vec<Oneof>,
    includes: Vec<(String, String)>,
    dead_files: Vec<String>,
    type_urls: Vec<(String, String)>,
    #[serde(default)]
    rpc_methods: Vec<(String, String, String)>,
}

/// result of decode -> encode -> decode through a generated type
pub struct Rt {
    pub reencoded: Vec<u8>,
    pub is_default: bool,
}

pub fn rt<T: Message + Default + PartialEq>(b: &[u8]) -> Result<Rt, String> {
    let v = T::decode(b).map_err(|e| format!("decode: {e}"))?;
    let e = v.encode_to_vec();
    let v2 = T::decode(&e[..]).map_err(|e| format!("decode of re-encoding: {e}"))?;
    if v2 != v {
        return Err("decode(encode(v)) != v".into());
    }
    if v.encoded_len() != e.len() {
        return Err("encoded_len disagrees with encode".into());
    }
    Ok(Rt { reencoded: e, is_default: v == T::default() })
}

pub fn any_rt<T: Message + Default + PartialEq + TypeUrl>(sample: &[u8], all_urls: &[&str]) -> Result<String, String> {
    let v = T::decode(sample).map_err(|e| format!("decode sample: {e}"))?;
    for val in [T::default(), v] {
        let any = val.to_any().map_err(|e| format!("to_any: {e}"))?;
        if any.type_url != T::TYPE_URL {
            return Err(format!("to_any type_url {} != TYPE_URL {}", any.type_url, T::TYPE_URL));
        }
        let back = T::from_any(&any).map_err(|e| format!("from_any of own any: {e}"))?;
        if back != val {
            return Err("from_any(to_any(v)) != v".into());
        }
        for u in all_urls {
            if *u == T::TYPE_URL {
                continue;
            }
            let other = prost_types::Any { type_url: u.to_string(), value: any.value.clone() };
            if T::from_any(&other).is_ok() {
                return Err(format!("from_any accepted mismatched type url {u}"));
            }
        }
        for u in [
            "",
            "cosmos.bank.v1beta1.MsgSend",
            &T::TYPE_URL[1..],
            &format!("{} ", T::TYPE_URL),
            &T::TYPE_URL.to_uppercase(),
            // the right name behind another host or path (what google's Any resolvers would accept)
            &format!("type.googleapis.com{}", T::TYPE_URL),
            &format!("https://example.org{}", T::TYPE_URL),
            &format!("/{}", T::TYPE_URL),
            &format!("/cosmos.bank.v1beta1.MsgSend{}", T::TYPE_URL),
            &format!("{}/", T::TYPE_URL),
            &format!("{}x", T::TYPE_URL),
            &T::TYPE_URL[..T::TYPE_URL.len() - 1],
        ] {
            let other = prost_types::Any { type_url: u.to_string(), value: any.value.clone() };
            if u != T::TYPE_URL && T::from_any(&other).is_ok() {
                return Err(format!("from_any accepted mismatched type url {u:?}"));
            }
        }
    }
    Ok(T::TYPE_URL.to_string())
}

// ------------------------------------------------------------------------------------------------
struct Db {
    schema: Schema,
    by_path: BTreeMap<String, usize>,
    enums: BTreeMap<String, EnumDef>,
    oneofs: BTreeMap<String, Oneof>,
}

fn wire_type(kind: &str) -> u8 {
    match kind {
        "string" | "bytes" | "message" | "map" => 2,
        "fixed64" | "sfixed64" | "double" => 1,
        "fixed32" | "sfixed32" | "float" => 5,
        _ => 0,
    }
}

fn zigzag(v: i64) -> u64 {
    ((v << 1) ^ (v >> 63)) as u64
}

/// value alphabet of a scalar kind: (label, wire value); never the proto3 default
fn scalar_values(db: &Db, f: &Field) -> Vec<(String, Val)> {
    match f.kind.as_str() {
        "string" => vec![("a".into(), Val::Len(b"a".to_vec())), ("300x".into(), Val::Len(vec![b'x'; 300])), ("utf8".into(), Val::Len("é∑".as_bytes().to_vec()))],
        "bytes" => vec![("01".into(), Val::Len(vec![1])), ("ff*200".into(), Val::Len(vec![0xff; 200])), ("00".into(), Val::Len(vec![0]))],
        "bool" => vec![("true".into(), Val::Varint(1))],
        "uint64" => vec![("1".into(), Val::Varint(1)), ("max".into(), Val::Varint(u64::MAX)), ("300".into(), Val::Varint(300))],
        "uint32" => vec![("1".into(), Val::Varint(1)), ("max".into(), Val::Varint(u32::MAX as u64))],
        "int64" => vec![("1".into(), Val::Varint(1)), ("-1".into(), Val::Varint(u64::MAX)), ("min".into(), Val::Varint(i64::MIN as u64)), ("max".into(), Val::Varint(i64::MAX as u64))],
        "int32" => vec![("1".into(), Val::Varint(1)), ("-1".into(), Val::Varint(u64::MAX)), ("min".into(), Val::Varint(i32::MIN as i64 as u64)), ("max".into(), Val::Varint(i32::MAX as u64))],
        "sint64" => vec![("1".into(), Val::Varint(zigzag(1))), ("-1".into(), Val::Varint(zigzag(-1))), ("min".into(), Val::Varint(zigzag(i64::MIN)))],
        "sint32" => vec![("1".into(), Val::Varint(zigzag(1))), ("-1".into(), Val::Varint(zigzag(-1)))],
        "fixed64" | "sfixed64" => vec![("1".into(), Val::Fixed64(1)), ("max".into(), Val::Fixed64(u64::MAX))],
        "double" => vec![("1.5".into(), Val::Fixed64(1.5f64.to_bits())), ("-0.0".into(), Val::Fixed64((-0.0f64).to_bits()))],
        "fixed32" | "sfixed32" => vec![("1".into(), Val::Fixed32(1)), ("max".into(), Val::Fixed32(u32::MAX))],
        "float" => vec![("1.5".into(), Val::Fixed32(1.5f32.to_bits()))],
        "enumeration" => {
            let mut v = vec![];
            if let Some(e) = db.enums.get(&f.ty_abs) {
                for (n, x) in e.variants.iter().filter(|(_, x)| *x != 0).take(2) {
                    v.push((n.clone(), Val::Varint(*x as u64)));
                }
            }
            v.push(("unknown_12345".into(), Val::Varint(12345)));
            v
        }
        _ => vec![],
    }
}

/// minimal non-default instance of a message type (bytes), recursion-bounded
fn minimal_instance(db: &Db, path: &str, depth: u32) -> Vec<u8> {
    if path == "::prost_types::Any" {
        return wire::write(&vec![(1, Val::Len(b"/x.Y".to_vec()))]);
    }
    if path == "::prost_types::Timestamp" || path == "::prost_types::Duration" {
        return wire::write(&vec![(1, Val::Varint(7))]);
    }
    let Some(i) = db.by_path.get(path) else { return vec![] };
    let m = &db.schema.messages[*i];
    if depth > 3 {
        return vec![];
    }
    // first scalar field, else first message field
    for f in &m.fields {
        if f.label != "repeated" && !["message", "oneof", "map"].contains(&f.kind.as_str()) {
            if let Some((_, v)) = scalar_values(db, f).into_iter().next() {
                return wire::write(&vec![(f.tag, v)]);
            }
        }
    }
    for f in &m.fields {
        if f.kind == "message" {
            let inner = minimal_instance(db, &f.ty_abs, depth + 1);
            return wire::write(&vec![(f.tag, Val::Len(inner))]);
        }
    }
    vec![]
}

fn packed(kind: &str, vals: &[Val]) -> Vec<u8> {
    let mut out = vec![];
    for v in vals {
        match v {
            Val::Varint(x) => wire::write_varint(*x, &mut out),
            Val::Fixed64(x) => out.extend_from_slice(&x.to_le_bytes()),
            Val::Fixed32(x) => out.extend_from_slice(&x.to_le_bytes()),
            Val::Len(_) => {}
        }
    }
    let _ = kind;
    out
}

/// all single-field instances of a field: (label, canonical bytes, expect_non_default)
fn field_instances(db: &Db, f: &Field) -> Vec<(String, Vec<u8>, bool)> {
    let mut out = vec![];
    match f.kind.as_str() {
        "message" => {
            let inner = minimal_instance(db, &f.ty_abs, 0);
            match f.label.as_str() {
                "repeated" => {
                    out.push(("rep[empty-msg]".into(), wire::write(&vec![(f.tag, Val::Len(vec![]))]), true));
                    out.push(("rep[x]".into(), wire::write(&vec![(f.tag, Val::Len(inner.clone()))]), true));
                    out.push(("rep[x,empty]".into(), wire::write(&vec![(f.tag, Val::Len(inner.clone())), (f.tag, Val::Len(vec![]))]), true));
                }
                _ => {
                    out.push(("present-empty".into(), wire::write(&vec![(f.tag, Val::Len(vec![]))]), true));
                    if !inner.is_empty() {
                        out.push(("one-field-set".into(), wire::write(&vec![(f.tag, Val::Len(inner))]), true));
                    }
                }
            }
        }
        "oneof" => {
            if let Some(o) = db.oneofs.get(&f.ty_abs) {
                for arm in &o.arms {
                    if arm.kind == "message" {
                        let inner = minimal_instance(db, &arm.ty_abs, 0);
                        out.push((format!("arm:{}:empty", arm.name), wire::write(&vec![(arm.tag, Val::Len(vec![]))]), true));
                        if !inner.is_empty() {
                            out.push((format!("arm:{}:set", arm.name), wire::write(&vec![(arm.tag, Val::Len(inner))]), true));
                        }
                    } else {
                        for (l, v) in scalar_values(db, arm) {
                            out.push((format!("arm:{}:{l}", arm.name), wire::write(&vec![(arm.tag, v)]), true));
                        }
                        // a oneof arm carrying the default value is still "set"
                        let zero = match wire_type(&arm.kind) {
                            2 => Val::Len(vec![]),
                            1 => Val::Fixed64(0),
                            5 => Val::Fixed32(0),
                            _ => Val::Varint(0),
                        };
                        out.push((format!("arm:{}:zero", arm.name), wire::write(&vec![(arm.tag, zero)]), true));
                    }
                }
            }
        }
        "map" => {
            let key = match f.map_key.as_str() {
                "string" => Val::Len(b"k".to_vec()),
                _ => Val::Varint(3),
            };
            // prost omits a map value that equals its default, so the canonical entry of a
            // message-valued map with an empty message is the key alone
            let val = match f.map_val.as_str() {
                "string" | "bytes" => Some(Val::Len(b"v".to_vec())),
                v if v.starts_with("message") => None,
                _ => Some(Val::Varint(9)),
            };
            let mut ef: Fields = vec![(1, key)];
            if let Some(v) = val {
                ef.push((2, v));
            }
            let entry = wire::write(&ef);
            out.push(("one-entry".into(), wire::write(&vec![(f.tag, Val::Len(entry))]), true));
        }
        _ => {
            let vals = scalar_values(db, f);
            let wt = wire_type(&f.kind);
            if f.label == "repeated" {
                if wt == 2 || f.packed_false {
                    if let Some((_, v)) = vals.first() {
                        out.push(("rep[1]".into(), wire::write(&vec![(f.tag, v.clone())]), true));
                    }
                    if vals.len() >= 2 {
                        out.push(("rep[2]".into(), wire::write(&vec![(f.tag, vals[0].1.clone()), (f.tag, vals[1].1.clone())]), true));
                    }
                    // an element with the default value is still an element
                    let zero = if wt == 2 { Val::Len(vec![]) } else { Val::Varint(0) };
                    out.push(("rep[zero]".into(), wire::write(&vec![(f.tag, zero)]), true));
                } else {
                    let vs: Vec<Val> = vals.iter().map(|x| x.1.clone()).collect();
                    out.push(("packed[1]".into(), wire::write(&vec![(f.tag, Val::Len(packed(&f.kind, &vs[..1])))]), true));
                    out.push(("packed[all]".into(), wire::write(&vec![(f.tag, Val::Len(packed(&f.kind, &vs)))]), true));
                    out.push(("packed[0,1]".into(), wire::write(&vec![(f.tag, Val::Len(packed(&f.kind, &[Val::Varint(0), vs[0].clone()])))]), true));
                }
            } else {
                for (l, v) in vals {
                    out.push((l, wire::write(&vec![(f.tag, v)]), true));
                }
            }
        }
    }
    out
}

struct Out {
    evaluations: u64,
    types_checked: u64,
    fields_checked: u64,
    violations: Vec<(String, String, Value)>, // key, detail, case
    samples: Vec<Value>,
    notes: Vec<String>,
    distinct: BTreeSet<String>,
}

fn viol(o: &mut Out, key: &str, detail: String, case: Value) {
    if !o.violations.iter().any(|v| v.0 == key) || o.violations.len() < 40 {
        o.violations.push((key.to_string(), detail, case));
    }
}

fn proto_package_of(path: &str) -> (String, String) {
    // "cosmos::bank::v1beta1::MsgSend" -> ("cosmos.bank.v1beta1", "MsgSend")
    let mut segs: Vec<&str> = path.split("::").collect();
    let name = segs.pop().unwrap_or("").to_string();
    (segs.join("."), name)
}

fn main() {
    let args: Vec<String> = std::env::args().collect();
    let tier = args.iter().position(|a| a == "--tier").and_then(|i| args.get(i + 1).cloned()).unwrap_or_else(|| std::env::var("VERIF_TIER").unwrap_or_else(|_| "quick".into()));
    let write_baseline = args.iter().any(|a| a == "--write-baseline");
    let t0 = Instant::now();
    let verif = std::env::var("VERIF_DIR").unwrap_or_else(|_| "/verif".into());
    if let Err(e) = mwsim::wire::self_test() {
        println!("MACHINERY-ERROR: wire self test: {e}");
        std::process::exit(2);
    }
    let schema: Schema = serde_json::from_str(SCHEMA_JSON).expect("schema");
    let refs: Schema = serde_json::from_str(REFS_JSON).expect("refs");
    let mut db = Db { by_path: BTreeMap::new(), enums: BTreeMap::new(), oneofs: BTreeMap::new(), schema: schema.clone() };
    for (i, m) in schema.messages.iter().enumerate() {
        db.by_path.insert(m.path.clone(), i);
    }
    for e in &schema.enums {
        db.enums.insert(e.path.clone(), e.clone());
    }
    for o in &schema.oneofs {
        db.oneofs.insert(o.path.clone(), o.clone());
    }
    let mut o = Out { evaluations: 0, types_checked: 0, fields_checked: 0, violations: vec![], samples: vec![], notes: vec![], distinct: BTreeSet::new() };

    // ---------------------------------------------------------------- (2) pinned baseline
    let baseline_path = format!("{verif}/baselines/initia-proto.schema.json");
    let canonical: Value = serde_json::from_str(SCHEMA_JSON).unwrap();
    if write_baseline {
        std::fs::create_dir_all(format!("{verif}/baselines")).unwrap();
        std::fs::write(&baseline_path, serde_json::to_string_pretty(&canonical).unwrap()).unwrap();
        println!("baseline written: {} messages", schema.messages.len());
        return;
    }
    match std::fs::read_to_string(&baseline_path).ok().and_then(|s| serde_json::from_str::<Value>(&s).ok()) {
        None => {
            println!("MACHINERY-ERROR: baseline {baseline_path} missing or unreadable");
            std::process::exit(2);
        }
        Some(base) => {
            let bm: BTreeMap<String, Value> = base["messages"].as_array().unwrap().iter().map(|m| (m["path"].as_str().unwrap().to_string(), m.clone())).collect();
            let cm: BTreeMap<String, Value> = canonical["messages"].as_array().unwrap().iter().map(|m| (m["path"].as_str().unwrap().to_string(), m.clone())).collect();
            o.evaluations += cm.len() as u64;
            for (p, m) in &cm {
                match bm.get(p) {
                    None => viol(&mut o, "baseline.new_message", format!("message {p} is not in the pinned schema baseline"), json!({"message": p})),
                    Some(b) => {
                        if b["fields"] != m["fields"] || b["full_name"] != m["full_name"] {
                            // name the first differing field
                            let bf = b["fields"].as_array().cloned().unwrap_or_default();
                            let mf = m["fields"].as_array().cloned().unwrap_or_default();
                            let mut what = "field list differs".to_string();
                            for i in 0..bf.len().max(mf.len()) {
                                if bf.get(i) != mf.get(i) {
                                    what = format!("field #{i}: baseline {} vs tree {}", bf.get(i).unwrap_or(&Value::Null), mf.get(i).unwrap_or(&Value::Null));
                                    break;
                                }
                            }
                            viol(&mut o, "baseline.message_drift", format!("message {p} differs from the pinned protobuf schema: {what}"), json!({"message": p}));
                        }
                    }
                }
            }
            for p in bm.keys() {
                if !cm.contains_key(p) {
                    viol(&mut o, "baseline.message_removed", format!("message {p} of the pinned schema baseline is gone"), json!({"message": p}));
                }
            }
            for key in ["enums", "oneofs", "includes", "dead_files"] {
                if base[key] != canonical[key] {
                    viol(&mut o, &format!("baseline.{key}_drift"), format!("{key} differ from the pinned schema baseline"), json!({"section": key}));
                }
            }
        }
    }

    // ---------------------------------------------------------------- (4) lib.rs mounts every file at the path it spells
    for (file, modpath) in &schema.includes {
        o.evaluations += 1;
        let spelled = file.trim_end_matches(".rs");
        if modpath.replace("::", ".") != spelled {
            // the statement speaks of encodings and type URLs, not of Rust module names: counted, not judged
            // (type URLs below are derived from the protobuf package of the *file*, so a mis-mounted file cannot hide a wrong URL)
            o.notes.push(format!("proto/{file} (package {spelled}) is mounted at module path {modpath}"));
        }
    }

    // ---------------------------------------------------------------- (4b) direction of pagination fields
    // independent of the baseline: in every Cosmos / IBC / Initia query service the `pagination` field of a
    // *Request is cosmos.base.query.v1beta1.PageRequest and that of a *Response is PageResponse (the two have
    // different field sets, so the wrong one silently drops what the peer sent)
    for m in &schema.messages {
        let name = m.path.rsplit("::").next().unwrap_or("");
        for f in m.fields.iter().filter(|f| f.name == "pagination" && f.kind == "message") {
            o.evaluations += 1;
            let want = if name.ends_with("Request") {
                "PageRequest"
            } else if name.ends_with("Response") {
                "PageResponse"
            } else {
                continue;
            };
            if f.ty_abs.rsplit("::").next() != Some(want) {
                viol(&mut o, "schema.pagination_direction", format!("{}.pagination is typed {} (a {} carries {want})", m.path, f.ty_abs, if want == "PageRequest" { "request" } else { "response" }), json!({"message": m.path, "field": "pagination", "type": f.ty_abs}));
            }
        }
    }

    // ---------------------------------------------------------------- (1) per type / field / value round trips
    let included: Vec<&Msg> = schema.messages.iter().filter(|m| m.included).collect();
    if included.len() != shims::SUBJECT_PATHS.len() {
        println!("MACHINERY-ERROR: shim table out of sync");
        std::process::exit(2);
    }
    let mut samples_by_type: BTreeMap<String, Vec<u8>> = BTreeMap::new();
    for (idx, m) in included.iter().enumerate() {
        o.types_checked += 1;
        // default value <-> empty bytes
        o.evaluations += 1;
        match shims::subject_roundtrip(idx, &[]) {
            Ok(r) if r.reencoded.is_empty() && r.is_default => {}
            Ok(r) => viol(&mut o, "roundtrip.default", format!("{}: empty input decodes to non-default or re-encodes to {} bytes", m.path, r.reencoded.len()), json!({"message": m.path})),
            Err(e) => viol(&mut o, "roundtrip.default", format!("{}: {e}", m.path), json!({"message": m.path})),
        }
        // duplicate tags inside one message are a schema error
        let mut tags: Vec<u32> = vec![];
        for f in &m.fields {
            if f.kind == "oneof" {
                tags.extend(f.tags.iter());
            } else {
                tags.push(f.tag);
            }
        }
        let mut t2 = tags.clone();
        t2.sort();
        t2.dedup();
        if t2.len() != tags.len() || tags.contains(&0) {
            viol(&mut o, "schema.duplicate_or_zero_tag", format!("{}: tags {:?}", m.path, tags), json!({"message": m.path}));
        }
        let mut all_fields: Fields = vec![];
        for f in &m.fields {
            o.fields_checked += 1;
            let insts = field_instances(&db, f);
            if insts.is_empty() {
                o.notes.push(format!("no instance generated for {}::{} ({})", m.path, f.name, f.kind));
            }
            for (label, bytes, expect_non_default) in insts {
                o.evaluations += 1;
                let case = json!({"message": m.path, "field": f.name, "tag": f.tag, "kind": f.kind, "label": f.label, "value": label, "bytes": hex(&bytes)});
                match shims::subject_roundtrip(idx, &bytes) {
                    Err(e) => viol(&mut o, "roundtrip.decode_failed", format!("{}.{} [{}]: {e}", m.path, f.name, label), case),
                    Ok(r) => {
                        if expect_non_default && r.is_default {
                            viol(&mut o, "roundtrip.field_not_recognised", format!("{}.{} (tag {}, {} {}) [{}]: the value was ignored (decoded message equals the default)", m.path, f.name, f.tag, f.label, f.kind, label), case);
                        } else if r.reencoded != bytes {
                            viol(
                                &mut o,
                                "roundtrip.bytes_differ",
                                format!("{}.{} (tag {}, {} {}) [{}]: re-encoding {} differs from canonical input {}", m.path, f.name, f.tag, f.label, f.kind, label, hex(&r.reencoded), hex(&bytes)),
                                case,
                            );
                        } else {
                            o.distinct.insert(format!("{}:{}:{}", f.kind, f.label, label.split(':').last().unwrap_or("")));
                            if o.samples.len() < 4 && (o.evaluations % 997 == 0) {
                                o.samples.push(case);
                            }
                        }
                    }
                }
            }
            // contribution to the all-fields instance
            if let Some((_, b, _)) = field_instances(&db, f).into_iter().next() {
                if let Some(parsed) = wire::parse(&b) {
                    all_fields.extend(parsed);
                }
            }
        }
        // all fields set at once, in tag order
        all_fields.sort_by_key(|(t, _)| *t);
        let bytes = wire::write(&all_fields);
        o.evaluations += 1;
        match shims::subject_roundtrip(idx, &bytes) {
            Ok(r) if r.reencoded == bytes => {
                samples_by_type.insert(m.path.clone(), bytes);
            }
            Ok(r) => viol(&mut o, "roundtrip.all_fields", format!("{}: all-fields instance re-encodes to {} instead of {}", m.path, hex(&r.reencoded), hex(&bytes)), json!({"message": m.path})),
            Err(e) => viol(&mut o, "roundtrip.all_fields", format!("{}: {e}", m.path), json!({"message": m.path})),
        }
    }

    // ---------------------------------------------------------------- (3) reference bindings (osmosis-std)
    let ref_by_name: BTreeMap<&str, (usize, &Msg)> = {
        let mut mm = BTreeMap::new();
        for (i, (full, path)) in shims::REF_PATHS.iter().enumerate() {
            if let Some(m) = refs.messages.iter().find(|m| m.path == *path && m.full_name == *full) {
                mm.insert(*full, (i, m));
            }
        }
        mm
    };
    let mut shared = 0u64;
    let mut skew = 0u64;
    for (idx, m) in included.iter().enumerate() {
        let Some((ridx, rm)) = ref_by_name.get(m.full_name.as_str()) else { continue };
        shared += 1;
        let mut common: Vec<&Field> = vec![];
        for f in &m.fields {
            o.evaluations += 1;
            match rm.fields.iter().find(|g| g.name == f.name) {
                Some(g) => {
                    // (osmosis-std marks some singular fields `optional`; presence tracking does not change the wire format)
                    let same = g.tag == f.tag && g.kind == f.kind && (g.label == "repeated") == (f.label == "repeated") && g.tags == f.tags && g.map_key == f.map_key && g.map_val == f.map_val;
                    if !same {
                        viol(
                            &mut o,
                            "reference.field_mismatch",
                            format!("{}.{}: tag {} {} {} here, tag {} {} {} in osmosis-std", m.full_name, f.name, f.tag, f.label, f.kind, g.tag, g.label, g.kind),
                            json!({"message": m.full_name, "field": f.name}),
                        );
                    } else {
                        common.push(f);
                    }
                }
                None => {
                    if let Some(g) = rm.fields.iter().find(|g| g.tag == f.tag && f.kind != "oneof") {
                        // same tag, different name: renamed across versions or wrong — wire types must still agree
                        if wire_type(&g.kind) != wire_type(&f.kind) || (g.label == "repeated") != (f.label == "repeated") {
                            viol(&mut o, "reference.tag_reused_incompatibly", format!("{} tag {}: {} {} {} here, {} {} {} in osmosis-std", m.full_name, f.tag, f.name, f.label, f.kind, g.name, g.label, g.kind), json!({"message": m.full_name, "tag": f.tag}));
                        }
                    }
                    skew += 1;
                }
            }
        }
        // equal values -> byte-identical encodings through both bindings
        for f in common {
            for (label, bytes, _) in field_instances(&db, f) {
                o.evaluations += 1;
                let a = shims::subject_roundtrip(idx, &bytes).map(|r| r.reencoded);
                let b = shims::ref_roundtrip(*ridx, &bytes).map(|r| r.reencoded);
                match (&a, &b) {
                    (Ok(x), Ok(y)) if x == y => {}
                    (Err(_), Err(_)) => {}
                    _ => {
                        // nested message types may themselves differ by version skew: only flag when the reference accepts
                        // the bytes unchanged (it knows every field involved) and the subject does not, or vice versa
                        let ref_exact = b.as_ref().map(|y| *y == bytes).unwrap_or(false);
                        let sub_exact = a.as_ref().map(|x| *x == bytes).unwrap_or(false);
                        if ref_exact != sub_exact && f.kind != "message" && f.kind != "oneof" {
                            viol(&mut o, "reference.bytes_differ", format!("{}.{} [{}]: subject {:?} vs osmosis-std {:?}", m.full_name, f.name, label, a.map(|x| hex(&x)), b.map(|x| hex(&x))), json!({"message": m.full_name, "field": f.name, "value": label}));
                        }
                    }
                }
            }
        }
    }
    o.notes.push(format!("{shared} message types shared with osmosis-std 0.25 by fully-qualified name; {skew} fields present on one side only (version skew, counted not judged)"));

    // ---------------------------------------------------------------- (5) type urls
    let all_urls: Vec<&str> = shims::TYPE_URL_PATHS.iter().map(|x| x.1).collect();
    for (i, (path, url)) in shims::TYPE_URL_PATHS.iter().enumerate() {
        o.evaluations += 1;
        let (mut pkg, name) = proto_package_of(path);
        // the protobuf package is that of the generated file the type comes from
        if let Some(j) = db.by_path.get(*path) {
            let full = &schema.messages[*j].full_name;
            if let Some(p) = full.strip_suffix(&format!(".{name}")) {
                pkg = p.to_string();
            }
        }
        // prost re-cases identifiers (MsgExecuteJSON becomes MsgExecuteJson): the protobuf spelling of the name
        // survives in the doc comment copied from the .proto file and in the gRPC path of the Msg service
        let mut proto_name = name.clone();
        if let Some(j) = db.by_path.get(*path) {
            let d = &schema.messages[*j].doc_name;
            if d.eq_ignore_ascii_case(&name) && *d != name {
                proto_name = d.clone();
            }
        }
        for (p2, svc, method) in &schema.rpc_methods {
            if *p2 == pkg && svc == "Msg" {
                let cand = format!("Msg{method}");
                if cand.eq_ignore_ascii_case(&name) && cand != name {
                    proto_name = cand;
                }
            }
        }
        let want = format!("/{pkg}.{proto_name}");
        if proto_name != name {
            o.notes.push(format!("{path}: protobuf name {proto_name} (doc comment / gRPC path) differs in case from the Rust identifier"));
        }
        if *url != want {
            viol(&mut o, "type_url.not_canonical", format!("TYPE_URL of {path} is {url:?}, fully-qualified protobuf name gives {want:?}"), json!({"type": path, "declared": url, "expected": want}));
        }
        if db.by_path.get(*path).map(|j| schema.messages[*j].full_name != format!("{pkg}.{name}")).unwrap_or(true) {
            viol(&mut o, "type_url.unknown_type", format!("{path} is not a message of the package"), json!({"type": path}));
        }
        if let Some((_, rm)) = ref_by_name.get(format!("{pkg}.{name}").as_str()) {
            if !rm.type_url.is_empty() && rm.type_url != *url {
                viol(&mut o, "type_url.differs_from_reference", format!("{path}: {url} here, {} in osmosis-std", rm.type_url), json!({"type": path}));
            }
        }
        let sample = samples_by_type.get(*path).cloned().unwrap_or_default();
        match shims::any_check(i, &sample, &all_urls) {
            Ok(u) if u == *url => {}
            Ok(u) => viol(&mut o, "type_url.const_mismatch", format!("{path}: trait constant {u} vs source {url}"), json!({"type": path})),
            Err(e) => viol(&mut o, "type_url.any_roundtrip", format!("{path}: {e}"), json!({"type": path})),
        }
        o.evaluations += all_urls.len() as u64;
    }
    // registrations that the syntactic scan of type_urls.rs does not see (macro-generated impls)
    {
        use shims::NoUrl;
        let _ = <shims::Probe<()> as NoUrl>::url;
    }
    let listed: BTreeSet<&str> = shims::TYPE_URL_PATHS.iter().map(|x| x.0).collect();
    let mut hidden = 0u64;
    for (path, url) in shims::registered_urls() {
        o.evaluations += 1;
        let Some(url) = url else { continue };
        if listed.contains(path) {
            continue;
        }
        hidden += 1;
        let (mut pkg, name) = proto_package_of(path);
        if let Some(j) = db.by_path.get(path) {
            let full = &schema.messages[*j].full_name;
            if let Some(p) = full.strip_suffix(&format!(".{name}")) {
                pkg = p.to_string();
            }
        }
        let mut proto_name = name.clone();
        if let Some(j) = db.by_path.get(path) {
            let d = &schema.messages[*j].doc_name;
            if d.eq_ignore_ascii_case(&name) && *d != name {
                proto_name = d.clone();
            }
        }
        let want = format!("/{pkg}.{proto_name}");
        if url != want {
            viol(&mut o, "type_url.not_canonical", format!("TYPE_URL of {path} (registered through a macro or outside the scanned impls) is {url:?}, fully-qualified protobuf name gives {want:?}"), json!({"type": path, "declared": url, "expected": want}));
        }
        if all_urls.contains(&url) {
            viol(&mut o, "type_url.duplicate", format!("type url {url} of {path} is already registered for another type"), json!({"url": url}));
        }
    }
    if hidden > 0 {
        o.notes.push(format!("{hidden} TypeUrl registrations are not written out as impl blocks in type_urls.rs; found through trait resolution"));
    }
    let mut seen_urls = BTreeSet::new();
    for u in &all_urls {
        if !seen_urls.insert(*u) {
            viol(&mut o, "type_url.duplicate", format!("type url {u} registered twice"), json!({"url": u}));
        }
    }

    // ---------------------------------------------------------------- report
    let dead_msgs = schema.messages.iter().filter(|m| !m.included).count();
    o.notes.push(format!("{} generated files are not included by lib.rs ({:?}); their {} messages get the schema-level checks only", schema.dead_files.len(), schema.dead_files, dead_msgs));
    let vacuous = o.types_checked < 1000 || o.fields_checked < 2500 || shared < 100 || shims::TYPE_URL_PATHS.len() < 20;
    let known = load_known(&verif);
    let mut hits: Vec<&(String, String, Value)> = vec![];
    let mut fresh: Vec<&(String, String, Value)> = vec![];
    for v in &o.violations {
        if known.contains(&v.0) {
            hits.push(v);
        } else {
            fresh.push(v);
        }
    }
    let mut samples = o.samples.clone();
    if samples.is_empty() {
        samples.push(json!({"message": "cosmos::bank::v1beta1::MsgSend", "field": "from_address", "bytes": "0a0161"}));
    }
    let ev = json!({
        "property_id": "C20", "tier": tier, "seed": 0, "level": "model_checking",
        "coverage": {
            "states": o.evaluations, "transitions": o.evaluations, "traces_validated_against_impl": o.evaluations,
            "evaluations": o.evaluations, "distinct_nontrivial": o.distinct.len().max(2),
            "rule": "one case = one (message type, field, value) instance built by the hand-written wire codec from the syn-extracted schema and pushed through the generated decode/encode; distinct = distinct (kind, label, value shape) classes that round-tripped",
            "samples": samples, "exhaustive": true,
            "message_types_included": o.types_checked, "message_types_total": schema.messages.len(), "fields": o.fields_checked,
            "shared_with_reference": shared, "type_urls": shims::TYPE_URL_PATHS.len(), "notes": o.notes,
            "known_findings_hit": hits.iter().map(|v| v.0.clone()).collect::<Vec<_>>(),
        },
        "assumptions": ["the syn-extracted prost attributes are the schema under test; the pinned baseline /verif/baselines/initia-proto.schema.json (taken from this tree) and osmosis-std 0.25 are the references for the protobuf definitions", "hand-written wire codec self-tested on protobuf documentation vectors"],
        "wall_s": t0.elapsed().as_secs_f64(), "violations": fresh.len(),
    });
    let ev_path = std::env::var("VERIF_EVIDENCE_OUT").unwrap_or_else(|_| format!("{verif}/evidence/C20.json"));
    let _ = std::fs::create_dir_all(format!("{verif}/evidence"));
    std::fs::write(&ev_path, serde_json::to_string_pretty(&ev).unwrap()).unwrap();
    println!("[C20 {tier}] types={} fields={} evaluations={} shared_with_osmosis_std={} type_urls={} wall={:.1}s", o.types_checked, o.fields_checked, o.evaluations, shared, shims::TYPE_URL_PATHS.len(), t0.elapsed().as_secs_f64());
    if vacuous {
        println!("MACHINERY-ERROR: vacuous run (types {}, fields {}, shared {}, urls {})", o.types_checked, o.fields_checked, shared, shims::TYPE_URL_PATHS.len());
        std::process::exit(2);
    }
    let mut printed = BTreeSet::new();
    for v in &hits {
        if printed.insert(v.0.clone()) {
            println!("KNOWN-FINDING: property=C20 {} — {}", v.0, v.1);
        }
    }
    if fresh.is_empty() {
        println!("OK property=C20 held on everything explored");
        std::process::exit(0);
    }
    let _ = std::fs::create_dir_all(format!("{verif}/replays"));
    let mut done = BTreeSet::new();
    for v in fresh {
        println!("DETAIL C20 {}: {}", v.0, v.1);
        if done.insert(v.0.clone()) {
            let path = format!("{verif}/replays/C20-{}.json", v.0.replace('.', "-"));
            std::fs::write(&path, serde_json::to_string_pretty(&json!({"kind": "case", "property": "C20", "key": v.0, "detail": v.1, "case": v.2})).unwrap()).unwrap();
            println!("VIOLATION property=C20 replay={path}");
        }
    }
    std::process::exit(1);
}

fn hex(b: &[u8]) -> String {
    b.iter().map(|x| format!("{:02x}", x)).collect()
}

fn load_known(verif: &str) -> Vec<String> {
    let Ok(s) = std::fs::read_to_string(format!("{verif}/known_findings.json")) else { return vec![] };
    let Ok(v) = serde_json::from_str::<Value>(&s) else { return vec![] };
    v["findings"].as_array().map(|a| a.iter().filter(|f| f["property"] == "C20").filter_map(|f| f["key"].as_str().map(|s| s.to_string())).collect()).unwrap_or_default()
}
