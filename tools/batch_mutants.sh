#!/bin/bash
# usage: batch_mutants.sh <id>:<sub>:<props,comma> ...   e.g. C01:a:C01,C07
for spec in "$@"; do
  id=${spec%%:*}; rest=${spec#*:}; sub=${rest%%:*}; props=${rest#*:}
  out=/tmp/mut/$id-out/$sub
  [ -f $out/patch.diff ] || { echo "## $id/$sub: no patch"; continue; }
  echo "## $id/$sub: $(python3 -c "import json;print(json.load(open('$out/meta.json')).get('summary','')[:200])" 2>/dev/null)"
  /verif/tools/confirm_mutant.sh /tmp/mut/$id $out 2>&1 | tail -3
  /verif/tools/try_mutant.sh $out/patch.diff ${props//,/ } 2>&1 | grep -E "^(===|VIOLATION|OK|MACHINERY|DETAIL)" | cut -c1-260 | awk '!seen[$0]++' | head -12
done
