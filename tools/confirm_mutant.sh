#!/bin/bash
# usage: confirm_mutant.sh <worktree> <outdir>
# confirms in the scratch worktree: suite passes with patch; demo fails with patch; demo passes without
set -u
WT=$1; OUT=$2
cd "$WT" || exit 2
git reset -q --hard && git clean -qfd -e target
git apply "$OUT/patch.diff" || { echo "PATCH DOES NOT APPLY"; exit 2; }
R1=$(CARGO_NET_OFFLINE=true cargo test --workspace --no-fail-fast --offline 2>&1 | grep -E "^test result" | awk '{p+=$4; f+=$6} END {print p" passed "f" failed"}')
echo "suite with patch: $R1"
git apply "$OUT/demo.diff" || { echo "DEMO DOES NOT APPLY"; exit 2; }
R2=$(CARGO_NET_OFFLINE=true cargo test --workspace --no-fail-fast --offline 2>&1 | grep -E "^test result" | awk '{p+=$4; f+=$6} END {print p" passed "f" failed"}')
echo "suite+demo with patch: $R2"
git apply -R "$OUT/patch.diff"
R3=$(CARGO_NET_OFFLINE=true cargo test --workspace --no-fail-fast --offline 2>&1 | grep -E "^test result" | awk '{p+=$4; f+=$6} END {print p" passed "f" failed"}')
echo "suite+demo without patch: $R3"
git reset -q --hard && git clean -qfd -e target
