#!/usr/bin/env python3
"""Prints one markdown row per property from /verif/evidence/*.json (figures for DESIGN §8.1)."""
import json, os, sys
V = os.path.dirname(os.path.dirname(os.path.abspath(__file__)))
for i in range(1, 21):
    pid = "C%02d" % i
    p = os.path.join(V, "evidence", pid + ".json")
    if not os.path.exists(p):
        print("| %s | (no evidence) |" % pid); continue
    e = json.load(open(p)); c = e.get("coverage", {})
    def g(k):
        v = c.get(k, 0)
        return v if isinstance(v, (int, float)) else 0
    print("| %s | %s | states %s | transitions %s | probes %s | grid cases %s | wall %.0f s | caps %s | violations %s |" % (
        pid, e.get("tier"), f"{g('states'):,}", f"{g('transitions'):,}", f"{g('probes'):,}", f"{g('evaluations'):,}", e.get("wall_s", 0), c.get("caps_hit", []), e.get("violations")))
