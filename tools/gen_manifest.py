#!/usr/bin/env python3
"""Regenerates /verif/MANIFEST.json from the table below (keeps it schema-valid)."""
import json, os
V = os.path.dirname(os.path.dirname(os.path.abspath(__file__)))

TRUST = ("trusted: rustc/cargo, the chain simulator's wasmd/bank/tokenfactory/ICS-20/ibc-hooks semantics (DESIGN §2.2, §7), "
         "the hand-written bech32/protobuf/wide-arithmetic oracles (self-tested on known vectors at start-up); bounded depth, actors, amounts")

CHECKS = {
 "C01": ("explicit-state BFS over the real contract in a chain simulator (wire-level ibc-hooks callbacks, halt/resume, held packets, forced recoveries with repeated ids), ghost ledger of moved tokens vs State query on every state, both token-factory builds", "3"),
 "C02": ("explicit-state BFS over the real contract in a chain simulator, bank balance vs obligations (batches, fees, refundable transfers) on every state, incl. forced recoveries of every receiver/denom group", "3"),
 "C03": ("explicit-state BFS over the real contract in a chain simulator, token-factory supply / balances / IBC deliveries on every state and stake, stray callbacks on near-miss channels, both builds", "3"),
 "C04": ("exhaustive grids over the two rate functions (small cube, 131^3 boundary lattice up to 2^128, quotient lattice around word boundaries) against independent 256-bit arithmetic; execute-level min/zero/expected/multi-coin grid; execute-level resume->stake->unstake->submit lattice; BFS history monitor on every stake/submit incl. batches of 120 and 1100 requesters", "3"),
 "C05": ("explicit-state BFS over all withdrawal orders (plain and with funds attached) against a reference request table; scripted crowded batches (120 / 1100 requesters) and long histories (150 batches) judged step by step; legacy batches without request counter", "3"),
 "C06": ("explicit-state BFS with deadline-boundary time alphabet (sub-second block times) against a reference lifecycle (fixed-amount plan plus a full-exit plan in which the due batch holds the whole LST supply), cross-checked by a second engine; deployed-bytes comparison on pinned stores; storage-read count of SubmitBatch against the number of requesters", "3"),
 "C07": ("exhaustive fault enumeration (ack ok/err/timeout/submit failure/stray and near-miss-channel acks/reply faults/recoveries of every shape incl. ordered id lists with repeats, 32-byte receivers, 140 refundable packets) inside the BFS against a reference packet table, cross-checked by a second engine", "3"),
 "C08": ("per-state probe battery (14 message kinds x ~35 principals incl. every configured address, twelve monitors, chain-level creator and migration admin, hook accounts through respelt channels) on every state of an exhaustive BFS that changes admin, monitors, staker, collector and channel; Withdraw callers; legacy batches without request counter", "3"),
 "C09": ("exhaustive grid of derive_intermediate_sender against a hand-written ibc-hooks derivation (python-pinned known answer) incl. 200/700-byte senders, all accepted (channel,sender) pairs for injectivity, execute-level grid over every accepted spelling of channel x staker x collector x configured prefix, end-to-end through the simulator's own ibc-hooks in a BFS that moves channel/staker/collector", "3"),
 "C10": ("per-state differential probes on every state of an exhaustive BFS (incl. stores with foreign history and left-over reply bookkeeping, a team of twelve monitors): the halted twin must refuse what the un-halted state accepts, raw storage diff of halt/resume, every non-resume message of the battery on every halted state (flag must stay set), resume argument grid, fresh instances under 6 configurations, halted flag across all migration paths", "3"),
 "C11": ("exhaustive grid reward x fee rate (incl. quotient points around word boundaries) x treasury x sender x configuration history, plus explicit-state BFS over reward/fee-config/withdraw histories, with independent fee arithmetic", "3"),
 "C12": ("complete BFS over nominate/revoke/accept by 4 principals with 7d-1s/7d/7d+1s time moves x sub-second parts, four chain ids, interleaved unrelated admin operations and code upgrades, both contracts, in lock-step with a 3-variable reference machine; cross-checked by a second engine", "3"),
 "C13": ("exhaustive grids: all allow-lists (<=2 routes of <=2 hops) x all candidate routes (<=3 hops) x coins x limits x senders; denom-spelling shape grid; allow-listed routes of 3-5 hops x every candidate one or two edits away; spend and update grids on a funded treasury behind a bank querier; emitted messages decoded by an independent protobuf reader", "3"),
 "C14": ("exhaustive single+pair field corruption (~60 operators) of valid configs on instantiate and on UpdateConfig with all 32 section subsets from two base configurations (plain, protocol section replaced), judged by an independent well-formedness predicate on the stored config", "3"),
 "C15": ("explicit-state BFS, oracle payload decoded and compared with rates recomputed from the post-state, oracle-less twin in lock-step on every transition, rejecting-oracle fault", "3"),
 "C16": ("explicit-state BFS from fresh instances under 6 configurations with every entry point under catch_unwind (release profile, overflow checks on) plus a hostile message/query/sudo/reply/migrate battery (odd bech32 strings, multi-byte texts at every power-of-two offset, execution outside a transaction) on every state of further searches; execute-level boundary/quotient lattice", "3"),
 "C17": ("per-state exhaustive enumeration of (start_after, limit, status) triples, cursor chasing with every page size, id lists and users on every state of the withdrawal and IBC searches (incl. 150-batch and 1100-requester histories) against a full-scan reference and the reference model; synthetic store of 2100 batches / packets; storage-read bound of the per-user query", "3"),
 "C18": ("exhaustive grid of pre-upgrade stores (up to 250 consecutive and sparse records, legacy types) x 17 stored versions x 4 names x migrate messages with raw-storage diff and post-upgrade recovery in the simulator; deployed-bytes comparison on pinned 1.0.0- and 1.1.0-layout stores", "3"),
 "C19": ("two cargo-feature builds explore the same graphs; token-factory messages decoded by a hand-written reader (constructor grid up to 128-character denoms); state/transition digests and the accept/reject vector of the configuration grid compared across builds", "3"),
 "C20": ("exhaustive per-type/per-field/per-value enumeration: syn-extracted schema of all 1328 messages, hand-written wire codec -> generated decode/encode -> byte comparison; pinned schema baseline; osmosis-std as independently generated reference; every TypeUrl registration (found through trait resolution, names checked against doc comments and gRPC paths) x Any round trips", "3"),
}
NA = {}
ALL = ["C%02d" % i for i in range(1, 21)]

def main():
    checks = []
    for pid in ALL:
        if pid not in CHECKS:
            continue
        tech, ref = CHECKS[pid]
        checks.append({
            "property_id": pid,
            "quick_cmd": "./check %s --tier quick" % pid,
            "thorough_cmd": "./check %s --tier thorough" % pid,
            "evidence_file": "/verif/evidence/%s.json" % pid,
            "replay_cmd_template": "./check %s --replay {path}" % pid,
            "engine": "protocheck" if pid == "C20" else "mwcheck",
            "level_claimed": {"category": "model_checking",
                              "text": "bounded exhaustive exploration of the real contract code: %s; holds for every history/input within the stated bounds, nothing sampled" % tech,
                              "design_ref": "DESIGN.md §%s %s" % (ref, pid)},
            "level_note": TRUST,
            "technique": tech,
        })
    na = [{"property_id": p, "reason": NA.get(p, "check not built yet in this session (work in progress, see DESIGN.md Appendix B)")} for p in ALL if p not in CHECKS]
    m = {
        "version": 1,
        "setup_cmd": "./check --setup",
        "hooks": {"guard": "--cfg milkyway_contracts_verif", "enable": "no source hooks are needed: the harness links the repository crates by path and uses only their public API",
                  "baseline_off_cmd": "cd /repo && cargo test --workspace --no-fail-fast --offline", "source_commits": [], "add_only": True},
        "engines": [{"name": "protocheck", "path": "/verif/harness/protocheck", "serves_properties": ["C20"], "kind_free_text": "build.rs extracts the protobuf schema from the generated sources with syn and generates one decode/encode shim per message type; main enumerates every type x field x value through a hand-written wire codec"},
                    {"name": "mwcheck", "path": "/verif/harness/mwcheck", "serves_properties": sorted(CHECKS.keys()),
                     "kind_free_text": "level-synchronous parallel BFS over the real contract entry points inside a deterministic chain simulator (mwsim), plus exhaustive grids"}],
        "checks": checks,
        "not_applicable": na,
        "notes": "All checks rebuild the harness against /repo's working tree (path dependencies) before running. Exit 2 = machinery failure.",
    }
    json.dump(m, open(os.path.join(V, "MANIFEST.json"), "w"), indent=1)

main()
