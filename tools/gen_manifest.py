#!/usr/bin/env python3
"""Regenerates /verif/MANIFEST.json from the table below (keeps it schema-valid)."""
import json, os
V = os.path.dirname(os.path.dirname(os.path.abspath(__file__)))

TRUST = ("trusted: rustc/cargo, the chain simulator's wasmd/bank/tokenfactory/ICS-20/ibc-hooks semantics (DESIGN §2.2, §7), "
         "the hand-written bech32/protobuf/wide-arithmetic oracles (self-tested on known vectors at start-up); bounded depth, actors, amounts")

CHECKS = {
 "C01": ("explicit-state BFS over the real contract in a chain simulator, ghost ledger of moved tokens vs State query, both token-factory builds", "3"),
 "C02": ("explicit-state BFS over the real contract in a chain simulator, bank balance vs obligations on every state", "3"),
 "C03": ("explicit-state BFS over the real contract in a chain simulator, token-factory supply / balances / IBC deliveries on every state and stake, both builds", "3"),
 "C04": ("exhaustive grids over the two rate functions (small cube + 131^3 boundary lattice up to 2^128) against independent 256-bit arithmetic, execute-level min/zero/expected grid, plus BFS history monitor on every stake/submit", "3"),
 "C05": ("explicit-state BFS over all withdrawal orders against a reference request table", "3"),
 "C06": ("explicit-state BFS with deadline-boundary time alphabet against a reference lifecycle", "3"),
 "C07": ("exhaustive fault enumeration (ack ok/err/timeout/submit failure/stray acks/recoveries) inside the BFS against a reference packet table", "3"),
 "C08": ("per-state probe battery (14 message kinds x 14 principals + Withdraw callers) on every state of an exhaustive BFS that changes admin, monitors, staker, collector and channel", "3"),
 "C09": ("exhaustive grid of derive_intermediate_sender against a hand-written ibc-hooks derivation (python-pinned known answer), all accepted (channel,sender) pairs for injectivity, end-to-end through the simulator's own ibc-hooks in a BFS that moves channel/staker/collector", "3"),
 "C10": ("per-state differential probes on every state of an exhaustive BFS: the halted twin must refuse what the un-halted state accepts, storage diff of halt/resume, resume argument grid, fresh instances under 6 configurations", "3"),
 "C11": ("explicit-state BFS over reward/fee-config/withdraw histories with independent fee arithmetic", "3"),
 "C12": ("complete BFS over nominate/revoke/accept by 4 principals with 7d-1s/7d/7d+1s time moves, both contracts, in lock-step with a 3-variable reference machine", "3"),
 "C13": ("exhaustive grid: all allow-lists (<=2 routes of <=2 hops) x all candidate routes (<=3 hops) x coins x limits x senders through the real treasury execute, emitted message decoded by an independent protobuf reader", "3"),
 "C14": ("exhaustive single+pair field corruption of valid configs on instantiate and on UpdateConfig with all 32 section subsets, judged by an independent well-formedness predicate on the stored config", "3"),
 "C15": ("explicit-state BFS, oracle payload decoded and compared with rates recomputed from the post-state", "3"),
 "C18": ("exhaustive grid of pre-upgrade stores (legacy types) x stored versions x names x migrate messages with raw-storage diff and post-upgrade recovery in the simulator", "3"),
 "C19": ("two cargo-feature builds explore the same graphs; token-factory messages decoded by a hand-written reader; state/transition digests compared across builds", "3"),
 "C17": ("per-state exhaustive enumeration of (start_after, limit, status) triples, cursor chasing with every page size, id lists and users on every state of the withdrawal and IBC searches, against a full-scan reference", "3"),
 "C20": ("exhaustive per-type/per-field/per-value enumeration: syn-extracted schema of all 1328 messages, hand-written wire codec -> generated decode/encode -> byte comparison; pinned schema baseline; osmosis-std as independently generated reference; all 27 registered type URLs x Any round trips", "3"),
 "C16": ("explicit-state BFS from fresh instances under 6 configurations with every entry point under catch_unwind (overflow checks on) plus a hostile message/query/sudo/reply/migrate battery on every state of further searches", "3"),
}
NA = {}
ALL = ["C%02d" % i for i in range(1, 21)]

def main():
    checks = []
    for pid in ALL:
        if pid not in CHECKS:
            continue
        tech, ref = CHECKS[pid]
        checks.append({
            "property_id": pid,
            "quick_cmd": "./check %s --tier quick" % pid,
            "thorough_cmd": "./check %s --tier thorough" % pid,
            "evidence_file": "/verif/evidence/%s.json" % pid,
            "replay_cmd_template": "./check %s --replay {path}" % pid,
            "engine": "protocheck" if pid == "C20" else "mwcheck",
            "level_claimed": {"category": "model_checking",
                              "text": "bounded exhaustive exploration of the real contract code: %s; holds for every history/input within the stated bounds, nothing sampled" % tech,
                              "design_ref": "DESIGN.md §%s %s" % (ref, pid)},
            "level_note": TRUST,
            "technique": tech,
        })
    na = [{"property_id": p, "reason": NA.get(p, "check not built yet in this session (work in progress, see DESIGN.md Appendix B)")} for p in ALL if p not in CHECKS]
    m = {
        "version": 1,
        "setup_cmd": "./check --setup",
        "hooks": {"guard": "--cfg milkyway_contracts_verif", "enable": "no source hooks are needed: the harness links the repository crates by path and uses only their public API",
                  "baseline_off_cmd": "cd /repo && cargo test --workspace --no-fail-fast --offline", "source_commits": [], "add_only": True},
        "engines": [{"name": "protocheck", "path": "/verif/harness/protocheck", "serves_properties": ["C20"], "kind_free_text": "build.rs extracts the protobuf schema from the generated sources with syn and generates one decode/encode shim per message type; main enumerates every type x field x value through a hand-written wire codec"},
                    {"name": "mwcheck", "path": "/verif/harness/mwcheck", "serves_properties": sorted(CHECKS.keys()),
                     "kind_free_text": "level-synchronous parallel BFS over the real contract entry points inside a deterministic chain simulator (mwsim), plus exhaustive grids"}],
        "checks": checks,
        "not_applicable": na,
        "notes": "All checks rebuild the harness against /repo's working tree (path dependencies) before running. Exit 2 = machinery failure.",
    }
    json.dump(m, open(os.path.join(V, "MANIFEST.json"), "w"), indent=1)

main()
