#!/usr/bin/env python3
"""keep_mutant.py <outdir> <seeded-id> <property> <caught_by...>  — store a confirmed seeded change under /verif/seeded/<id>/"""
import json, os, shutil, sys
out, sid, prop = sys.argv[1], sys.argv[2], sys.argv[3]
caught = sys.argv[4:]
d = os.path.join('/verif/seeded', sid)
os.makedirs(d, exist_ok=True)
shutil.copy(os.path.join(out, 'patch.diff'), os.path.join(d, 'patch.diff'))
shutil.copy(os.path.join(out, 'demo.diff'), os.path.join(d, 'demo.diff'))
m = json.load(open(os.path.join(out, 'meta.json')))
meta = {
    "id": sid, "breaks_property": prop, "summary": m.get("summary"), "needs_to_manifest": m.get("needs"),
    "demo_cmd": m.get("demo_cmd"), "author": "independent sub-agent given only the property text and a scratch worktree",
    "confirmed_by_me": "tools/confirm_mutant.sh in a scratch worktree: existing suite 107/107 passes with patch.diff; demo.diff test fails with patch.diff and passes without",
    "checks_run": "tools/try_mutant.sh patch.diff " + " ".join(c.split(':')[0] for c in caught),
    "caught_by": caught,
}
json.dump(meta, open(os.path.join(d, 'meta.json'), 'w'), indent=1)
print("kept", d)
