#!/bin/bash
# Re-applies every seeded change under /verif/seeded and runs the quick check of the property it breaks;
# prints one line per change: CAUGHT / MISSED / MACHINERY. /repo must be clean. Takes ~2.5 h for all 159;
# an optional argument is an extended regular expression selecting the changes by name (e.g. '-r8-|-r7-').
cd /verif
git -C /repo diff --quiet || { echo "/repo is dirty"; exit 2; }
miss=0
sel=${1:-.}
for d in seeded/*/; do
  name=$(basename $d)
  echo "$name" | grep -Eq -- "$sel" || continue
  prop=$(python3 -c "import json;print(json.load(open('$d/meta.json'))['breaks_property'])" 2>/dev/null)
  git -C /repo apply /verif/${d}patch.diff || { echo "$name: PATCH DOES NOT APPLY"; continue; }
  out=$(./check $prop --tier quick 2>&1)
  git -C /repo checkout -- .
  if echo "$out" | grep -q "^VIOLATION property=$prop"; then echo "$name: CAUGHT by $prop ($(echo "$out" | grep -m1 '^DETAIL' | cut -c1-100))";
  elif echo "$out" | grep -q "MACHINERY"; then echo "$name: MACHINERY ($(echo "$out" | grep -m1 MACHINERY | cut -c1-150))"; miss=$((miss+1));
  else echo "$name: MISSED by $prop"; miss=$((miss+1)); fi
done
echo "not caught: $miss"
