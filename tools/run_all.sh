#!/bin/bash
# usage: run_all.sh quick|thorough [ids...]  — runs ./check for every property, prints one summary line each
tier=${1:-quick}; shift
ids=${@:-C01 C02 C03 C04 C05 C06 C07 C08 C09 C10 C11 C12 C13 C14 C15 C16 C17 C18 C19 C20}
cd /verif
for p in $ids; do
  s=$(date +%s)
  out=$(./check $p --tier $tier 2>&1); rc=$?
  e=$(date +%s)
  echo "$p rc=$rc $((e-s))s $(echo "$out" | grep -E '^\[C' | tr '\n' ' ' | cut -c1-300) $(echo "$out" | grep -E 'VIOLATION|MACHINERY' | head -2 | tr '\n' ' ' | cut -c1-200)"
done
