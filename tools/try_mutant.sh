#!/bin/bash
# usage: try_mutant.sh <patch.diff> <prop> [<prop>...]   -- applies the patch to /repo, runs quick checks, undoes it
set -u
P=$1; shift
git -C /repo diff --quiet || { echo "/repo is dirty"; exit 2; }
git -C /repo apply "$P" || { echo "PATCH DOES NOT APPLY to /repo"; exit 2; }
for prop in "$@"; do
  echo "=== $prop"
  /verif/check $prop --tier quick 2>&1 | grep -E "^(VIOLATION|OK|MACHINERY|KNOWN|DETAIL|\[C)" | cut -c1-400 | head -12
done
git -C /repo checkout -- .
